"""C09 — check configuration (see tools/props.py for the keys)."""
from propslib import comp_scope

PROP = dict(
    extract=["capi_user"],
    lean_targets=["Chewing.Props.C09", "Chewing.Props.C08CApi"],
    runs=[dict(bin="dict", timeout=1200, timeout_thorough=3000),
          dict(bin="dictsql", features=["sqlite"], timeout=1200, timeout_thorough=3000),
          # the map behaviour seen through the C user-phrase calls (add / remove / lookup / enumerate with arbitrary strings):
          # records `capiuser …` + the statements of Props/C08CApi.lean evaluated on the real C context (`!oracle C09 new …`)
          dict(bin="capi_props", tag="capi_props", args=["--histories", "300", "--calls", "40"], args_thorough=["--histories", "6000", "--calls", "40"])],
    scope=comp_scope("dict", "dictsql", "capiuser"),
    level="proof",
    exhaustive=False,
    rule="Records `capiuser …` (run capi_props, work package capiuser): one evaluation = one user-phrase or context-writing configuration call of a generated C-API history (chewing_userphrase_add / _remove / _lookup with arbitrary strings - mismatched lengths, unparsable / empty / NULL / non-UTF-8, phrases already there -, the enumeration triple, chewing_set_KBType, chewing_config_set_str, chewing_set_selKey with any len): the record carries what the REAL context enumerates before the call and the REAL return value / enumeration after it; Model/CApiUser.lean (Driver/CApiUser.lean) recomputes both; the statements of Props/C08CApi.lean (add success => looked up and enumerated, refusal => dictionary unchanged, remove, lookup = enumeration, purity) are evaluated on the real context (#stat user_add_success, user_add_refused, user_add_calls_with_mismatched_lengths, user_remove_success, user_lookup_found, user_records_*). "
         "Otherwise: one evaluation = one step of a random operation history (<= 30 ops; add/update/remove/flush/reopen/close+open; "
         "4 keys related by prefix — 0, 1, 2 or 3 syllables — x 6 phrases, one beginning with U+10FFFF) on the real TrieBuf (in-memory, file-backed with the snapshot writer waited "
         "for), Trie, Layered (user layer in-memory or file-backed, every call made through Layered) or SqliteDictionary: "
         "the model replays the whole history and must reproduce the result of the step, the lookups (n in {0,1,2,MAX}, both "
         "strategies, and the provided trait methods lookup_first_phrase / lookup_all_phrases) and the enumeration, in order; "
         "distinct = distinct record text",
    trusted_base=["kernel evaluation (`decide`) only for the concrete refutation witnesses and non-vacuity examples"],
    assumptions=[
        "sequential schedules of the snapshot writer only (checkpoint, writer finished, then sync); concurrent schedules are C10's",
        "a trie file is modelled as its list of leaves; file I/O succeeds. That this abstraction is the content of the byte file is a "
        "THEOREM now (C09.file_layer_is_C11, Proofs/TrieLink.lean, from C11's read_write / lookup_correct / first_n_prefix / "
        "first_phrase_correct / entries_correct / writes_within_limits): for entries valid for the Rust types the bytes TrieBuilder::write "
        "produces open, and the real reader's lookup_all_phrases (exact AND prefix), lookup_first_n_phrases, lookup_first_phrase return the "
        "SAME LISTS as Trie.lookupAll / lookupFirstN on Trie.build es; entries() the same entries (permutation; per key the same order; which permutation: file_entries_order). "
        "Pieces: comparator_is_C11 (leafCmp, updated to fix ddfe893, = C11's phraseLt), leaf_order_is_C11 (isort = sortLeaf: stable sorts "
        "under a total preorder are unique, Proofs/StableSort.lean), builder_insert_is_C11 (insRepl = upsert on leaves with distinct texts), "
        "the byte-level fuzzy walk visits keys in lexicographic order (reach_paths_sorted). Explicit hypotheses: ValidInput, Fits",
        "frequencies fit u32, times u64 (no precondition on phrase texts any more: the U+10FFFF range bound is fixed, "
        "max_code_point_phrase_fixed)",
        "the leaf comparator of TrieBuilder::write is a total preorder on all leaves since repository fix ddfe893 (model follows it; "
        "leaf_order_any_stable_sort: the model's leaf does not depend on the algorithm slice::sort_by runs)",
        "no excluded class: F36 (FuzzyOverTombstoneOrPending, prefix lookups over pending / tombstoned entries) is repaired by fix c3d9fb2; "
        "the prefix-lookup SPECIFICATION IsFuzzyLookup is order-free (each text live under a matching key once, value of one such key, highest "
        "frequency); the ORDER of the repaired code is stated as an equation (fuzzy_order) and compared record by record. Prefix matching = same "
        "number of syllables and stored.starts_with(query) per syllable (Trie.fuzzyMatch; its `n != 0` guard is vacuous on a Vec<Syllable>)",
        "the persisted candidates of a prefix lookup come from the REAL Trie::entries() (depth first) while the model enumerates the file in "
        "sorted order; that the two agree after the prefix filter is a THEOREM (fuzzy_order_is_file_order, Proofs/TrieFuzzyOrder.lean: the "
        "matching keys have one length, a chain of proper prefixes holds at most one key of a length) — not an assumption",
        "SQLite user dictionary: relational reading of its eight SQL statements (INSERT OR REPLACE, LEFT JOIN, ORDER BY with "
        "NULLs first and BINARY collation, rowid = largest id + 1) is trusted; its specification SMap differs from MapSpec by "
        "design of the back end (value = (freq, Option(user_freq, time)), reported frequency = max, add replaces instead of "
        "rejecting, update of a learned phrase keeps its time, the lookup strategy is ignored); v1 migration not modelled",
    ],
)

MANIFEST = dict(
    text="Lean 4 theorems (Chewing/Props/C09.lean), proved for all histories by induction: TrieBuf (trie snapshot + pending "
         "B-tree + graveyard, sequential snapshot writer with file/in-flight state) refines the abstract map MapSpec along "
         "every operation history (invariant + snapshot lemma: the file built from entries() denotes the same map); add is "
         "rejected exactly on live keys; EXACT LOOKUPS AND THE ENUMERATION ARE THE MAP'S IN EVERY STATE of every history, in-memory "
         "or file-backed, with no precondition on the calls (lookup_exact, entries_exact; on an exact lookup "
         "the de-duplication loop is the identity, lookup_is_candidates); since fix c3d9fb2 (F36) PREFIX lookups are the map's in every state "
         "too, so the FULL statement is a theorem: C09 : C09_full (refinement + exact + prefix + enumeration answers, every history, no "
         "excluded class, no side condition; fuzzy_exact, fuzzy_phrases, triebuf_refines_full; the former refutation witnesses are the "
         "regression theorems fuzzy_pending_repaired, fuzzy_tombstone_repaired, fuzzy_shadow_repaired); the specification of a prefix lookup is "
         "order-free, the order of the code is the equation fuzzy_order (persisted matching entries in file order, then pending ones in "
         "BTreeMap order, first appearance per text) and both strategies are one formula (lookup_is_filtered_enumeration: candidates = "
         "entries() filtered by the strategy's key match); reopen;flush;reopen or close-and-open leave nothing pending and every answer (exact, prefix, "
         "enumeration) is the map's (adoption_answers, close_open_answers); removed stays absent, re-add/update visible again with exactly "
         "the written value (readd_visible_again, update_visible, pending_is_reported); Layered = union, one entry per phrase, highest frequency, "
         "first-appearance order, and under any history applied through Layered its answer is system layers + the user's map "
         "for BOTH strategies, in-memory or file-backed user layer, in every state (layered_history_full; layered_history, layered_history_file); first n = prefix of the full result for TrieBuf, Layered, Trie and SQLite, "
         "lookup_first_phrase = its head. SQLite (relational model of the two tables): refinement and exact answers in every "
         "state, no exclusion. Correspondence part (not a theorem): the hand-written models are tied to the code by replaying "
         "random histories (quick: ~55 000 steps) through model and implementation and comparing every answer in order, plus "
         "a reference-map oracle on the implementation that yields the concrete failing history.",
    note="Five fix: commits in the repository (F09 tombstone lifted on add/update, F11 Trie first-n truncation, F10 a pending entry "
         "replaces the persisted one with the same key in entries() and lookups, C09-N1 the pending range is no longer cut at U+10FFFF; "
         "regression theorems update_persisted_fixed, max_code_point_phrase_fixed) plus F36 (c3d9fb2): a prefix lookup of TrieBuf is answered "
         "from the merged view entries_iter() — pending over persisted, minus tombstones, each keyed by the entry's OWN key — filtered by Trie's "
         "per-syllable match; no change to Trie, exact lookups untouched. No known finding is left for C09: every failing exact, prefix or "
         "enumeration answer is reported as new. Side effect on the editor family: their harness layers are in-memory TrieBufs, whose prefix "
         "lookup was the exact lookup before the fix — the editor driver's dictionary model and C07's reference follow the strategy now. Trusted: Lean kernel (propext, Classical.choice, Quot.sound), the harness, "
         "the compiled model driver, the relational reading of SQL. Not covered: SQLite v1 migration, concurrent writer "
         "schedules (C10). The order of Trie::entries across keys is no longer open: C09.file_entries_order (from C11.entries_order) — the real "
         "iterator lists the leaves of the file with every maximal prefix chain of the sorted key list reversed. The byte format is no "
         "longer an uncovered assumption: C09.file_layer_is_C11 / snapshot_file_is_C11 derive the List-Leaf file layer from C11's theorems.",
    technique="Lean 4 proof (refinement by invariant + induction over histories, permutation/pairwise reasoning on lists) over a hand-written executable model; sampled model/implementation correspondence with a reference-map oracle",
)
