"""C09 — check configuration (see tools/props.py for the keys)."""
from propslib import comp_scope

PROP = dict(
    extract=[],
    lean_targets=["Chewing.Props.C09"],
    runs=[dict(bin="dict", timeout=1200, timeout_thorough=3000),
          dict(bin="dictsql", features=["sqlite"], timeout=1200, timeout_thorough=3000)],
    scope=comp_scope("dict", "dictsql"),
    level="proof",
    exhaustive=False,
    rule="one evaluation = one step of a random operation history (<= 30 ops; add/update/remove/flush/reopen/close+open; "
         "4 keys related by prefix x 5 phrases) on the real TrieBuf (in-memory, file-backed with the snapshot writer waited "
         "for), Trie or Layered: the model replays the whole history and must reproduce the result of the step, the "
         "lookups (n in {0,1,2,MAX}, both strategies) and the enumeration, in order; distinct = distinct record text",
    trusted_base=["kernel evaluation (`decide`) only for the concrete refutation witnesses and non-vacuity examples"],
    assumptions=[
        "sequential schedules of the snapshot writer only (checkpoint, writer finished, then sync); concurrent schedules are C10's",
        "a trie file is modelled as its list of leaves (byte format: C11); file I/O succeeds",
        "phrase texts do not begin with U+10FFFF (class MaxCodePointPhrase, refutation proved); frequencies fit u32, times u64",
        "phrases under one key have the same number of characters (as many as the key has syllables), so that the leaf "
        "comparator of TrieBuilder::write is a total preorder (only the order inside a leaf depends on it, no theorem does)",
        "known findings F10 (UpdatePersisted) and F36 (FuzzyOverTombstoneOrPending) are excluded by exact decidable classes",
        "SQLite user dictionary: relational reading of its eight SQL statements (INSERT OR REPLACE, LEFT JOIN, ORDER BY with "
        "NULLs first and BINARY collation, rowid = largest id + 1) is trusted; its specification SMap differs from MapSpec by "
        "design of the back end (value = (freq, Option(user_freq, time)), reported frequency = max, add replaces instead of "
        "rejecting, update of a learned phrase keeps its time, the lookup strategy is ignored); v1 migration not modelled",
    ],
)

MANIFEST = dict(
    text="Lean 4 theorems (Chewing/Props/C09.lean): TrieBuf (trie snapshot + pending B-tree + graveyard, sequential snapshot "
         "writer with file/in-flight state) refines the abstract map MapSpec along every operation history by induction "
         "(invariant + snapshot lemma: the file built from entries() denotes the same map); add is rejected exactly on live "
         "keys; exact lookups and enumerations are the map's in every state of an in-memory dictionary and outside the exact "
         "classes UpdatePersisted / FuzzyOverTombstoneOrPending of a file-backed one (refutations proved with the concrete "
         "witnesses); the set of phrases returned is right in every state; removed stays absent, re-add/update visible again; "
         "Layered = union, one entry per phrase, highest frequency, first-appearance order; first n = prefix for TrieBuf, "
         "Layered, Trie and SQLite. SQLite (relational model of the two tables): refinement and exact answers in every state, "
         "no exclusion. Tie: correspondence on random histories (model replays each history) + reference-map oracle.",
    note="Two fix: commits in the repository (F09 tombstone lifted on add/update, F11 Trie first-n truncation); F10, F36 and "
         "MaxCodePointPhrase are known findings. Trusted: Lean kernel (propext, Classical.choice, Quot.sound), the harness, "
         "the compiled model driver, the relational reading of SQL. Not covered: SQLite v1 migration, concurrent writer "
         "schedules (C10), byte format (C11).",
    technique="Lean 4 proof (refinement by invariant + induction over histories, permutation/pairwise reasoning on lists) over a hand-written executable model; sampled model/implementation correspondence with a reference-map oracle",
)
