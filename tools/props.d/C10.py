"""C10 — check configuration (see tools/props.py for the keys)."""
from propslib import comp_scope

PROP = dict(
    extract=[],
    lean_targets=["Chewing.Props.C10"],
    runs=[dict(bin="persist", timeout=900, timeout_thorough=5400)],
    scope=comp_scope("persist"),
    level="proof",
    exhaustive=False,
    rule="one evaluation = one schedule (foreground script x writer release points, or x a process death) realised exactly on "
         "the real code through the H3 hooks in a fresh directory, every step's observation (return status, dirty, writer "
         "position, the three layers, the dictionary file through Trie::open+entries, the temp file) recomputed by the model; "
         "distinct = distinct realised schedule. quick: all scripts of <= 2 foreground steps x all release points + a seeded "
         "sample of the length 3-4 enumeration + the F12 witnesses + 60 process deaths (6 scenarios x 10 writer positions) + "
         "an editor tier (learn/unlearn/key events through a real Editor over a file-backed user dictionary, the editor dropped "
         "at chosen writer positions); thorough: the full enumeration (scripts <= 4 over {add,update,remove x 2 keys, flush, reopen}, length 5 over a "
         "reduced alphabet, each followed by every split of Drop)",
    trusted_base=[
        "step model granularity: real threads are assumed to interleave only at the hook points (each foreground call reads "
        "the writer's state once: is_finished() in sync, join_handle.is_some() in checkpoint)",
        "rename(2) replaces the target atomically; File::create/write/sync_data affect only the temp file; the writer never "
        "opens the dictionary path for writing (checked at hook-point granularity by the harness oracle: contents and inode "
        "of the path change only across the rename step); process death keeps what write(2) handed to the kernel",
        "guarded hooks chewing::verif::hit / TrieBuf::verif_persist_state (add-only, read-only by inspection)",
    ],
    assumptions=[
        "LEVEL IS PARTIAL BY NATURE: the protocol logic is proved for all schedules and crash points of the step model; "
        "that the step model is the real runtime is validated by realising schedules, not proved",
        "contents are abstract maps (key -> value); byte layout and reading back is property C11",
        "the model is parametric in two source variants and the theorems say which they need: Drop joins the writer first "
        "(F12 repair, fix commit in the repository; durable_full needs it, durable_refuted is the code as found) and "
        "add/update revive a tombstoned key (C09's F09 repair; only live_tracks/durable_spec need it); the harness probes "
        "both from the implementation and the model is run in the variant observed",
        "outside the quantifier, by reading: an I/O error in the writer leaves dirty=false, so those changes are not retried "
        "at close; power loss (no directory fsync); other processes writing the same directory; a kill inside write(2)",
    ],
)

MANIFEST = dict(
    text="Lean 4 theorems (Chewing/Props/C10.lean) over a labelled transition system of TrieBuf's persistence protocol "
         "(Chewing/Model/Persist.lean): foreground calls add/update/remove/flush/reopen with every early return, the parts of "
         "Drop, the snapshot writer's program counter start..finished with an abstract file system (path, temp; complete or "
         "partial contents), process death enabled in every state. Proved for ALL action lists (= all interleavings and crash "
         "points of the step model) by an inductive invariant: the path always holds a complete dictionary and changes only "
         "at the rename step, to the complete snapshot (atomic, atomic_step, atomic_old_or_new, atomic_after_crash); sync adopts "
         "a writer's result only if no change was accepted since the snapshot (adopt_safe); after close the file holds exactly "
         "the live contents (durable_full; editor_durable for the editor's learn / unlearn / reopen+flush-after-key pattern), which "
         "are exactly the accepted changes applied to the initial file once C09's tombstone repair is merged (durable_spec). "
         "PARTIAL BY NATURE: the truth lives partly in the runtime; that real threads interleave only at the modelled points, "
         "that rename(2) is atomic and that the writer never writes the path in place are trusted-base assumptions. The step "
         "model is validated against the real code on every run: the harness parks the writer thread and Drop at each hook "
         "point, releases them in the order of the schedule, kills a child process at each writer position, and compares every "
         "observation (state, dictionary file via an independent reader, temp file) with the model. Finding F12 (Drop lost "
         "changes made while a snapshot was in flight) was confirmed deterministically, proved (durable_refuted) and repaired "
         "by a fix: commit; the check runs on the repaired code.",
    note="Trusted: Lean kernel (axioms propext, Quot.sound only), the harness and the compiled model driver, the guarded hooks, "
         "and the step-model assumptions above (granularity of interleaving, rename atomicity, temp-file isolation). Not "
         "covered: I/O errors in the writer (changes are then not retried at close), power loss, concurrent processes.",
    technique="Lean 4 proof (inductive invariant over a step model, all schedules and crash points) + schedule-exact "
              "model/implementation correspondence through progress-point hooks and killed child processes",
)
