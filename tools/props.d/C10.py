"""C10 — check configuration (see tools/props.py for the keys)."""
from propslib import comp_scope

PROP = dict(
    extract=[],
    lean_targets=["Chewing.Props.C10"],
    runs=[dict(bin="persist", timeout=900, timeout_thorough=5400, features=["sqlite"]),
          dict(bin="persist_sql", timeout=600, timeout_thorough=1800, features=["sqlite"])],
    scope=comp_scope("persist", "persistsql"),
    level="proof",   # schema category; the claimed level is `partial` (DESIGN §8), see assumptions + MANIFEST text
    exhaustive=False,
    rule="one evaluation = one schedule (foreground script x writer release points, or x a process death) realised exactly on "
         "the real code through the H3 hooks in a fresh directory, every step's observation (return status, dirty, writer "
         "position, the three layers, the dictionary file through Trie::open+entries, the temp file) recomputed by the model; "
         "distinct = distinct realised schedule. quick: all scripts of <= 2 foreground steps x all release points + a seeded "
         "sample of the length 3-4 enumeration + the F12 witnesses + 60 process deaths (6 scenarios x 10 writer positions) + "
         "an editor tier (learn/unlearn/key events through a real Editor over a file-backed user dictionary, the editor dropped "
         "at chosen writer positions); thorough: the full enumeration (scripts <= 4 over {add,update,remove x 2 keys, flush, reopen}, length 5 over a "
         "reduced alphabet, each followed by every split of Drop; measured 2026-09-29: 174 126 plans, 177 204 schedules run, 53 084 distinct realised, 0 differences, 15.5 min). SQLite back end (persist_sql, feature sqlite): "
         "random call lists on a real SqliteDictionary, an independent read-only connection after every call (no flush, no close); "
         "150 (thorough 1500) child processes run call lists in lock-step and are SIGKILLed 0-400 us after a call was released, a "
         "fresh connection must read the acknowledged calls plus possibly the one in progress; the model is stepped at statement "
         "granularity",
    trusted_base=[
        "step model granularity: real threads are assumed to interleave only at the hook points (each foreground call reads "
        "the writer's state once: is_finished() in sync, join_handle.is_some() in checkpoint)",
        "rename(2) replaces the target atomically; File::create/write/sync_data affect only the temp file; the writer never "
        "opens the dictionary path for writing (checked at hook-point granularity by the harness oracle: contents and inode "
        "of the path change only across the rename step); process death keeps what write(2) handed to the kernel",
        "guarded hooks chewing::verif::hit / TrieBuf::verif_persist_state (add-only, read-only by inspection)",
        "SQLite back end: SQLite's transaction guarantee (WAL, synchronous=NORMAL: a committed transaction survives process "
        "death, an uncommitted one leaves no trace) and the relational reading of the five SQL statements are TRUSTED; kill "
        "points inside a transaction are hit by timing, not by hooks",
    ],
    assumptions=[
        "LEVEL IS PARTIAL BY NATURE: the protocol logic is proved for all schedules and crash points of the step model; "
        "that the step model is the real runtime is validated by realising schedules, not proved",
        "the abstract model's contents are maps (key -> value); LINKED (Proofs/DictLink.lean, Props/C10.lean section `linked`): the protocol is "
        "also run over C09's concrete TrieBuf layers (CWorld/cstep = Persist.lean's control skeleton with C09's TrieBuf.apply, "
        "TrieBuf.entries, Trie.build as data functions) and a forward simulation into the abstract model is proved (sim_step / "
        "changes_refine_linked), so the three content assumptions are theorems: live = base overridden by pending minus tombstones "
        "(live_is_abs_linked: Buf.live of the abstraction = C09's TrieBuf.abs), add/update/remove act as Buf.add/put/remove and add is "
        "rejected exactly on a live phrase (C09's btGet_btInsert/btGet_btErase/contains_grave*/addOk_eq), entries() collected into a "
        "TrieBuilder = live (snapshot_is_entries_linked = C09's snapshot lemma build_abs; holds in EVERY state: since the C09 fix for F10 "
        "entries() lists a key that is both persisted and pending once, with the pending value; snapshot_order_irrelevant shows the "
        "written value no longer depends on the chain order, while without that filter the swapped order would write the stale value). durable_lookup_linked: after close under any schedule the file is a well-formed trie "
        "holding exactly MapSpec's map of the calls made, and a TrieBuf opened on it answers lookup / entries / prefix lookup as that map "
        "(C09's lookup_agrees/entries_agrees/fuzzy_agrees on a settled state, no finding class). FILES ARE BYTES NOW: durable_lookup_bytes_linked "
        "(Proofs/DictLinkBytes.lean + C09.file_layer_is_C11): along every run every complete file (path, temp, writer output / re-opened "
        "result, snapshot in memory) is Trie.build es with es valid for the Rust types and within the size predicate (Tracked, tracked_run), "
        "and for such es C11's byte-level write / Trie::new / lookup_all_phrases / lookup_first_n_phrases / entries denote exactly that leaf "
        "list; conclusion: after close under any schedule the BYTES at the path exist, open with the metadata written, the real reader "
        "answers every exact lookup as MapSpec's map of the calls (first n = prefix), entries() enumerates exactly that map, and a TrieBuf "
        "opened on the file reads through that reader (prefix lookups too). Explicit extra hypotheses (C11's): call arguments of the Rust "
        "types (CActValid), initial file written from valid entries, every snapshot of the history within the format limits "
        "(SnapshotsOk ... FitsInfo = C11's Builder.Fits; a write that exceeds them returns Err, which the protocol model does not follow)",
        "the model is parametric in two source variants and the theorems say which they need: Drop joins the writer first "
        "(F12 repair, fix commit in the repository; durable_full needs it, durable_refuted is the code as found) and "
        "add/update revive a tombstoned key (C09's F09 repair; only live_tracks/durable_spec need it); the harness probes "
        "both from the implementation and the model is run in the variant observed",
        "outside the quantifier, by reading: an I/O error in the writer leaves dirty=false, so those changes are not retried "
        "at close; power loss (no directory fsync); other processes writing the same directory; a kill inside write(2)",
    ],
)

MANIFEST = dict(
    text="LEVEL partial (DESIGN 8: theorem about the protocol logic; threads and the file system are modelled as atomic steps at "
         "the hook points, which is validated by realising schedules, not proved). Lean 4 theorems (Chewing/Props/C10.lean) over a "
         "labelled transition system of TrieBuf's persistence protocol (Chewing/Model/Persist.lean): foreground calls "
         "add/update/remove/flush/reopen with every early return, the parts of Drop, the snapshot writer's program counter "
         "start..finished over an abstract file system (path, temp; complete or partial contents), process death enabled in "
         "every state, re-open after close. Proved for ALL action lists (= all interleavings and crash points of the step model) "
         "by induction over the list with an inductive invariant, no enumeration: the path always holds a complete dictionary and "
         "changes only at the rename step, to the complete snapshot (atomic, atomic_step, atomic_old_or_new, atomic_after_crash); "
         "crash-point theorem (crash_point): after process death at any step no file changed, the file loads, holds the OLD "
         "contents before the writer's rename step and the NEW ones from it on, and these were the live contents after some prefix "
         "of the history (file_is_prefix_live / file_is_prefix_spec: never a mixture of two moments); over any number of process "
         "lifetimes each ended by close or death, a leftover temp file included, the file is the accepted changes of a prefix of "
         "every lifetime (reopen_prefix_consistent) and of everything when all closed normally (reopen_durable); sync adopts a "
         "writer's result only if no change was accepted since the snapshot (adopt_safe); after close the file holds exactly the "
         "live contents (durable_full), a normal close is reachable from every state in <= 22 writer/Drop steps, no deadlock "
         "(close_always_completes), = the accepted changes applied to the initial file once C09's tombstone repair is merged "
         "(durable_spec); the same through the editor's learn / unlearn / reopen+flush-after-key pattern over Layered's forwarding "
         "(editor_durable, editor_atomic, editor_never_adopts). Linked to C09 (section `linked`): the same protocol over C09's concrete TrieBuf layers "
         "simulates into the abstract model, so that after close under any schedule the file holds exactly MapSpec's map of the calls and "
         "a reopened TrieBuf answers every lookup as that map (durable_lookup_linked). SQLite back end: SQLite's transaction guarantee is TRUSTED; over a "
         "relational step model (Model/PersistSql.lean: two relations, five statements, a transaction as a private working copy, "
         "death anywhere) it is proved that the committed relations are exactly the calls that returned, at every moment and after "
         "death at any statement boundary, with no flush or close needed (Sql.sql_prefix, sql_durable_on_return, "
         "sql_crash_keeps_committed). Correspondence on every run: the harness parks the writer thread and Drop at each hook "
         "point, releases them in the order of the schedule, lets a child process die in 13 foreground contexts x 10 writer "
         "positions, and compares every observation (state, dictionary file via an independent reader, inode, temp file) with the "
         "model; SQLite: independent connection after every call and SIGKILLed children, model stepped per statement. Finding F12 "
         "(Drop lost changes made while a snapshot was in flight) was confirmed deterministically, proved (durable_refuted) and "
         "repaired by a fix: commit; the check runs on the repaired code.",
    note="Trusted: Lean kernel (axioms propext, Quot.sound, and Classical.choice in the linked theorems only), the harness and the compiled model driver, the guarded hooks, "
         "the step-model assumptions (real threads interleave only at the hook points - each foreground call reads the writer's "
         "state once; rename(2) is atomic; create/write/sync_data touch only the temp file; death keeps what write(2) handed to "
         "the kernel), SQLite's transaction guarantee and the relational reading of its statements. The abstract TrieBuf part of the model "
         "is self-contained (contents are maps key -> value, live = base overridden by pending minus tombstones, the snapshot is the live "
         "contents); these assumptions are DISCHARGED by the linked theorems: Proofs/DictLink.lean runs the same protocol over C09's concrete "
         "TrieBuf model and proves a forward simulation (live_is_abs_linked, changes_refine_linked, snapshot_is_entries_linked = C09's "
         "build_abs, valid in every state), giving durable_lookup_linked in C09's terms (file after close = MapSpec's map of "
         "the calls; the reopened TrieBuf answers as that map). The linked theorems use Classical.choice (to pick an abstract content "
         "representing the initial file). NO LONGER TRUSTED about contents: 'a complete file read back yields the leaves written' - "
         "durable_lookup_bytes_linked states the end-to-end result for the file as bytes read by C11's model of Trie::new / lookup / entries "
         "(C09.file_layer_is_C11 + Proofs/DictLinkBytes.lean), under the explicit hypotheses CActValid (arguments of the Rust types) and "
         "SnapshotsOk/FitsInfo (every snapshot within C11's format limits). STILL TRUSTED: the control skeleton of the protocol (schedule-exact "
         "correspondence), and that a snapshot exceeding the format limits (write returns Err) is not modelled. Not covered: I/O errors in the writer (dirty is already cleared, the changes are not "
         "retried at close - by reading), power loss (no directory fsync; WAL synchronous=NORMAL), concurrent processes, the "
         "in-memory dictionary, Editor internals other than the dictionary calls it issues.",
    technique="Lean 4 proof (inductive invariant + history predicate over a step model; all schedules, crash points and process "
              "lifetimes by induction) + schedule-exact model/implementation correspondence through progress-point hooks and "
              "killed child processes",
)
