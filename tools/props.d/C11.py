"""C11 — check configuration (see tools/props.py for the keys)."""
from propslib import comp_scope

PROP = dict(
    extract=["bopomofo", "syllable", "trie_format"],
    lean_targets=["Chewing.Props.C11"],
    runs=[dict(bin="codec")],
    scope=comp_scope("codec"),
    level="proof",
    exhaustive=False,
    rule="one evaluation = one transcript record: the bytes of TrieBuilder::write for a generated entry set (compared byte for "
         "byte with the model's writer), or a batch of up to 8 lookups / entries() / about() of the real Trie on a file, "
         "recomputed by the model's reader. distinct = distinct record text. The harness oracle additionally evaluates the "
         "C11 statement itself with a reference map on every file (and on the model writer's bytes fed to the real Trie), "
         "and a separate counted stream of entry sets beyond the 16-bit limits (generator_stats limits_*)",
    trusted_base=["the `der` crate (0.7) is modelled for the eight shapes the trie format uses (Model/Der.lean) and `slice::sort_by` "
                  "as a stable insertion sort; both are tied to the code by the byte-for-byte correspondence only",
                  "the builder arena is modelled as the tree it represents (first-child/next-sibling); arena ids are not observable "
                  "in the output"],
    assumptions=["inputs as the Rust types constrain them: strings of Unicode scalar values, non-zero u16 syllables, u32 frequency, "
                 "optional u64 timestamp; lookups through lookup_all_phrases (first = usize::MAX)",
                 "the statement is about successful writes (after the F13 fix `write` fails loudly beyond the 16-bit limits and "
                 "beyond der's 256 MiB Length::MAX); `writes_within_limits` proves success inside the limits",
                 "`slice::sort_by` is modelled as a stable sort (insertion from the right); since the comparator is a total "
                 "preorder after the F41 fix (`comparator_total_preorder`) every stable sort gives this result, whatever "
                 "algorithm std picks for the leaf's size (leaves of > 20 phrases are generated: generator_stats big_leaves)"],
)

MANIFEST = dict(
    text="Lean 4 theorem `C11 : C11_full` (Chewing/Props/C11.lean) over an executable byte-level model of TrieBuilder::{insert,write} "
         "and Trie::{new,lookup_all_phrases (both strategies),entries,about} including the DER shapes of the `der` crate: for all "
         "metadata and all finite insert sequences, a successful write opens with identical metadata; exact lookups return exactly "
         "the inserted phrases (re-insert replaces in place) in the documented order and nothing for absent keys; fuzzy prefix "
         "lookups return exactly the same-length keys matching syllable-wise (C13's starts_with), each once; entries() yields every "
         "(key, phrase) once; the bytes are a Document of trie.asn1 whose index is the BFS layout (leaf first, children ascending, "
         "consecutive ranges). Proof by DER round trips, the BFS loop invariant (bfs_layout), refinement of the reader to a walk on "
         "the builder tree, and the explicit-stack DFS of entries(). `writes_within_limits`: inside the 16-bit/256 MiB limits write "
         "succeeds. Tie: trie.asn1 / trie.rs constants regenerated every run; byte-for-byte correspondence of writer and reader on "
         "generated entry sets; oracle = the statement on the real code with a reference map and an independent format parser.",
    note="Findings repaired in the repository: F13 (`as u16` truncation, write now errors) and the freq range of trie.asn1 (doc). "
         "Trusted: Lean kernel (propext, Classical.choice, Quot.sound), the translator, the harness and compiled model driver; the "
         "model of `der`, of `sort_by` and the tree abstraction of the arena are validated by correspondence, not derived from source.",
    technique="Lean 4 proof (induction over the builder tree, BFS/DFS loop invariants, DER round trips) + sampled byte-for-byte correspondence",
)
