"""C11 — check configuration (see tools/props.py for the keys)."""
from propslib import comp_scope

PROP = dict(
    extract=["bopomofo", "syllable"],
    lean_targets=["Chewing.Props.C11"],
    runs=[dict(bin="codec")],
    scope=comp_scope("codec"),
    level="proof",
    exhaustive=False,
    rule="one evaluation = one transcript record: the bytes of TrieBuilder::write for a generated entry set (compared byte for "
         "byte with the model's writer), or a batch of up to 8 lookups / entries() / about() of the real Trie on a file, "
         "recomputed by the model's reader. distinct = distinct record text",
    trusted_base=["the `der` crate is modelled for the eight shapes the trie format uses (Model/Der.lean); the model is tied to it "
                  "by byte-for-byte correspondence only"],
    assumptions=[],
)

MANIFEST = dict(
    text="(filled in below)",
    note="",
    technique="Lean 4 proof (induction over the builder tree and the BFS write loop) + sampled byte-for-byte correspondence",
)
