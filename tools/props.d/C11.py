"""C11 — check configuration (see tools/props.py for the keys)."""
from propslib import comp_scope

PROP = dict(
    extract=["bopomofo", "syllable", "trie_format"],
    lean_targets=["Chewing.Props.C11"],
    runs=[dict(bin="codec")],
    scope=comp_scope("codec"),
    level="proof",
    exhaustive=False,
    rule="one evaluation = one transcript record: the bytes of TrieBuilder::write for a generated entry set (compared byte for "
         "byte with the model's writer), or a batch of up to 8 lookups (lookup_all_phrases, lookup_first_n_phrases with n = 0/1/3, "
         "lookup_first_phrase; both strategies) / entries() (the complete enumeration IN ORDER) / about() of the real Trie on a file, "
         "recomputed by the model's reader. "
         "distinct = distinct record text. Besides random entry sets the stream holds fixed extreme shapes (fan-out 300, 60-syllable "
         "keys, data offsets beyond 16 bits, a leaf of exactly 65535 bytes). The harness oracle additionally evaluates the C11 "
         "statement itself with a reference map on every file (and on the model writer's bytes fed to the real Trie), rebuilds every "
         "input for byte identity (same order; keys regrouped in another order; keys' first-insertion order shuffled with the "
         "order within each key kept — a random merge of the per-key insert sequences and the keys in a random order, "
         "generator_stats shuffled_rewrites), sends every seventh input through "
         "build(path)/Trie::open(path), and runs a separate counted stream of entry sets at and beyond the 16-bit limits "
         "(generator_stats limits_*; thorough tier: every Syllable value as a child of one node, 147832 index records). Keys hold "
         "valid syllable codes only (generator_stats key_syllables_*), boundary values included; every fifth written file is also fed "
         "to Trie::new with one node syllable replaced by a value Syllable::try_from rejects (must be refused; the model's openTrie "
         "agrees: `codec about … => err`) and by another valid code (must open; about/entries compared)",
    trusted_base=["the `der` crate (0.7) is modelled for the eight shapes the trie format uses (Model/Der.lean) and `slice::sort_by` "
                  "as a stable insertion sort; both are tied to the code by the byte-for-byte correspondence only",
                  "the builder arena is modelled as the tree it represents (first-child/next-sibling); arena ids are not observable "
                  "in the output"],
    assumptions=["inputs as the Rust types constrain them: strings of Unicode scalar values, syllables that are `Syllable` values "
                 "(since the repair of C13's F47: non-zero u16 codes Syllable::try_from accepts — `validCode` in ValidEntry; the type "
                 "invariant of the `&[Syllable]` key of insert, queries need only be non-zero), u32 frequency, "
                 "optional u64 timestamp; lookup_all_phrases is lookup_first_n_phrases with first = usize::MAX, where the cut-off "
                 "`result.len() > first` and `result.truncate(first)` cannot fire (the model's lookupAll omits them; lookupFirstN "
                 "models both for every other n)",
                 "the statement is about successful writes (after the F13 fix `write` fails loudly beyond the 16-bit limits and "
                 "beyond der's 256 MiB Length::MAX); `writes_within_limits` proves success inside the limits",
                 "`slice::sort_by` is modelled as a stable sort (insertion from the right); since the comparator is a total "
                 "preorder after the F41 fix (`comparator_total_preorder`) every stable sort gives this result, whatever "
                 "algorithm std picks for the leaf's size (leaves of > 20 phrases are generated: generator_stats leaves_with_more_than_20_phrases)"],
)

MANIFEST = dict(
    text="Lean 4 theorem `C11 : C11_full` (Chewing/Props/C11.lean) over an executable byte-level model of TrieBuilder::{insert,write} "
         "and Trie::{new, lookup_first_n_phrases / lookup_all_phrases / lookup_first_phrase (both strategies), entries, about} "
         "including the DER shapes of the `der` crate: for all metadata and all finite insert sequences, a successful write opens "
         "with identical metadata; exact lookups return exactly the inserted phrases (re-insert replaces in place) in the documented "
         "order and nothing for absent keys; fuzzy prefix lookups return exactly the same-length keys matching syllable-wise (C13's "
         "starts_with), each once; lookup_first_n_phrases(key, n) returns exactly the first n phrases of the full result for every n and "
         "both strategies (`first_n_prefix`: lookupFirstN = (lookupAll).take n — C09's 'first n = prefix of the full result' for the "
         "Trie back end), lookup_first_phrase its head; entries() yields every (key, phrase) once — and in WHICH order is a theorem "
         "too (`entries_order`, `entries_order_first_inserted`: an EQUATION of lists, not a permutation): the explicit-stack walk "
         "descends along first children (ascending syllable code, leaf record first), pushes the leaves it passes and pops them "
         "deepest first, then ascends to the next sibling; so the keys come sorted lexicographically by syllable code with a prefix "
         "before its extensions, cut into the maximal chains 'each key a prefix of the next', every chain reversed (Cli.trieOrder; "
         "Proofs/TrieEntriesOrder.lean: tLoop_ord computes the walk, Proofs/TrieEntriesRuns.lean: pre_sorted, ord_eq_runs, "
         "ord_eq_trieOrder), under each key the leaf in written order; the bytes are a Document of "
         "trie.asn1 whose index is the BFS layout (leaf first, children ascending, consecutive ranges). `reader_on_conforming_file`: "
         "every conforming file, whoever wrote it, is read as the map of its tree (independent writer). Proof by DER round trips, "
         "the BFS loop invariant (bfs_layout), refinement of the reader to a walk on the builder tree, and the explicit-stack DFS of "
         "entries(). `validate_write`: the index of every written file passes the structural check Trie::new performs since the repair "
         "of C12's F16/F17 (validate_index — the model's openTrie ends with it; the scan follows the BFS emission order and its `next` "
         "is the writer's child_begin), so read_write/C11 hold unchanged; Conforms includes the BFS-order clause. Keys are `Syllable` "
         "values = valid codes since the repair of C13's F47 (ValidEntry); validate_index's new syllable check on node records is "
         "covered by validate_write (`writeLoop_syls`), the `try_from(..).unwrap()` of entries() and the fuzzy predicate's "
         "`if let Ok(..) = try_from(n)` are modelled with validCode and cannot fail on a written file. "
         "`writes_within_limits`: inside the 16-bit/256 MiB limits write succeeds. 'Equal input gives byte-identical files' for the "
         "input the property names, a SET of entries: `order_independent` — for all metadata and insert sequences es, es' with the "
         "same map key -> inserted phrase vector (`∀ k, inserted es k = inserted es' k`) the written bytes (and success of write) are "
         "identical, although the builder keeps children in first-insertion order and the trees differ; no validity hypothesis "
         "(Proofs/TrieOrderIndep.lean: `Good_ofEntries` distinct sibling syllables + no dead node for every insert sequence, "
         "`kids_rel` extensionality per level after the stable sort by syllable, `writeLoop_congr`, `writeLoop_fuel`, `write_ext` = "
         "`bytes_function_of_map`). Corollaries `same_key_order_same_bytes` (every rearrangement keeping each key's inserts in "
         "order) and `perm_same_bytes` (the inductively defined `KeySwap`: swaps of adjacent inserts with different keys; "
         "`keySwap_characterised`: KeySwap es es' <-> for every key the same filtered insert list, Proofs/TrieOrderIndepPerm.lean). "
         "The hypothesis is exact: `within_key_order_matters` — two single characters under one key in the two orders (same entry "
         "set) give different bytes (kernel `decide` on that instance). `deterministic` stays the literal 'equal insert sequence, "
         "equal bytes'. The clause is also evaluated on the implementation: the oracle rebuilds every input with the keys regrouped "
         "in descending order and with the keys' first-insertion order shuffled (random merge of the per-key insert sequences, and "
         "keys in random order; generator_stats shuffled_rewrites) through the real TrieBuilder and compares the bytes. Tie: trie.asn1 / trie.rs constants "
         "regenerated every run; byte-for-byte correspondence of writer and reader on generated entry sets and extreme shapes; "
         "oracle = the statement on the real code with a reference map and an independent format parser; the oracle compares the ORDER "
         "of entries() exactly (key sequence = sorted keys with prefix chains reversed, computed independently; every leaf in documented "
         "order), generator_stats entries_order_checked_files / entries_order_files_with_a_prefix_chain.",
    note="Findings repaired in the repository (four `fix:` commits): F13 (`as u16` truncation, write now errors), F40 (freq range of "
         "trie.asn1 said 16 bits) and F41 (the phrase comparator was not a total order: sort_by could panic on leaves mixing single "
         "characters and phrases); F11 (found by C09, commit c70c911): Trie::lookup_first_n_phrases returned whole leaves beyond n "
         "(TrieBuf and Layered truncate) — it now ends with result.truncate(first), the model and the first-n theorems follow the "
         "fixed code. Trusted: Lean kernel (propext, Classical.choice, Quot.sound), the translator, the harness and "
         "compiled model driver; the model of `der`, of `sort_by` (any stable sort, the comparator being a proved total preorder) and "
         "the tree abstraction of the arena are validated by correspondence, not derived from source.",
    technique="Lean 4 proof (induction over the builder tree, BFS/DFS loop invariants, DER round trips) + sampled byte-for-byte correspondence",
)
