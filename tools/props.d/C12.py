"""C12 — corrupt dictionary / legacy user files never crash or hang the host."""
from propslib import fn_scope

PROP = dict(
    extract=["bopomofo", "syllable", "estimate"],      # the fuzzy search predicate of the walk driver uses the C13 model
    lean_targets=["Chewing.Props.C12"],
    runs=[dict(bin="legacy", timeout=900), dict(bin="corrupt", timeout=1500, timeout_thorough=6000)],
    scope=fn_scope("loader start", "loader cstart", "walk lookup", "walk entries", "walk open", "walk validate"),
    level="proof",
    exhaustive=False,
    rule="one evaluation = one call of the real code recomputed by the model: UserDictionaryLoader::load / chewing_new2 over a "
         "directory holding one legacy file (every value of the two length bytes of a binary record, every single-byte overwrite / "
         "truncation / random extension of small valid binary and text files, header values across the integer boundaries, "
         "arbitrary bytes), and Trie::lookup_* / Trie::entries() over every file Trie::new accepted among all single-byte overwrites "
         "(4-8 values per byte), truncations, extensions, per-field index rewrites, random index tables and arbitrary bytes of a "
         "family of valid files, each step in a child process with a 2 s watchdog; the real outcome class ok/panic/hang is part of "
         "the record and the model must predict it. distinct = distinct record text",
    trusted_base=[
        "crate der 0.7: decoding the outer document into (info, index bytes, phrase bytes) and decoding one phrase record are "
        "PARAMETERS of the traversal theorems (the phrases the real PhrasesIter decodes per leaf are exported in each record); that "
        "Trie::new itself never panics on arbitrary bytes is checked by the oracle only (open_total is not proved)",
        "the harness reads the decoded index / phrase bytes of an opened Trie from its derived Debug output (no source hook)",
        "debug-assertion profile (the one the repository's tests and this harness build); little-endian, 4-byte c_int platform",
    ],
    assumptions=[
        "known finding F16: an index that is not a parent-before-child tree hangs entries() and multiplies lookup's thread set "
        "(entries_terminates_refuted / lookup_blowup proved; partial theorems assume Forward / DisjointRanges)",
        "known finding F17: a zero syllable at a non-first child position panics entries() (entries_no_panic_refuted)",
        "known finding F39 (dictionary-file form): an entry under the empty key makes every conversion abort (oracle only: the "
        "conversion engine is not part of this model)",
        "F40 (a stored phrase frequency within reach of u32::MAX aborted the first commit that learns the phrase: add with overflow in "
        "estimate.rs) is repaired in the repository (saturating_add); stored_freq_never_overflows is stated over C08's estimate model, which "
        "the translator ties to the saturating form; the witness file stays in the harness and has no oracle class any more",
        "swkb.dat / symbols.dat loaders and the SQLite user dictionary are not covered",
    ],
)

MANIFEST = dict(
    text="Lean 4 theorems (Chewing/Props/C12.lean) over executable models of the legacy uhash.dat readers (binary 125-byte records, "
         "text lines; every index/slice a checked accessor) and of the repository's own trie traversal code (lookup thread sets, "
         "entries() explicit-stack walk, every bail_if_oob! guard) over arbitrary index tables with the der decoders as parameters: "
         "legacy readers and UserDictionaryLoader::load return (no panic, no fuel exhaustion) for ALL byte strings with at most one "
         "record per byte; lookup returns for ALL index tables with at most n^|q| threads; entries() never panics under NoZeroChild "
         "(= not F17) and finishes within 8*2^n+2 loop iterations under Forward (= children after their parent, not F16) by a "
         "strictly decreasing measure (entries_measure_decreases); refutations with concrete witnesses for F16 (endless loop for every "
         "fuel; thread blow-up) and F17 (both panic sites). NOT proved: a linear thread / step bound under Forward+DisjointRanges "
         "(LookupThreadsLinear is stated and refuted in general only). Tie: the model must predict the real outcome "
         "(result, panic or hang) of every call on systematically corrupted files; an independent oracle reports any panic, abort, "
         "watchdog timeout or result larger than the file.",
    note="F14/F15/F39(legacy)/F26 were repaired by fix: commits and are proved absent in the model of the repaired code (witnesses "
         "kept as theorems about the pre-fix decoder). Trie::new (der crate) on arbitrary bytes is covered by the oracle only.",
    technique="Lean 4 proof (induction over records/lines/threads, potential-function termination argument) + sampled/systematic model-implementation correspondence with watchdog child processes",
)
