"""C12 — corrupt dictionary / legacy user files never crash or hang the host."""
from propslib import fn_scope

PROP = dict(
    extract=["bopomofo", "syllable", "estimate", "sysloader"],      # the fuzzy search predicate of the walk driver uses the C13 model
    lean_targets=["Chewing.Props.C12", "Chewing.Props.C12NewCtx"],
    runs=[dict(bin="legacy", timeout=900), dict(bin="corrupt", timeout=1500, timeout_thorough=6000),
          dict(bin="newctx", timeout=900, timeout_thorough=3000)],
    scope=fn_scope("loader start", "loader cstart", "walk lookup", "walk entries", "walk open", "walk validate",
                   "sysl load", "sysl dropin", "sysl abbrev", "sysl symbols", "sysl parseabbrev", "sysl parsesym", "sysl new2", "sysl crash"),
    level="proof",
    exhaustive=False,
    rule="one evaluation = one call of the real code recomputed by the model: UserDictionaryLoader::load / chewing_new2 over a "
         "directory holding one legacy file (every value of the two length bytes of a binary record, records whose stored syllable is "
         "not a syllable code in either format, every single-byte overwrite / "
         "truncation / random extension of small valid binary and text files, header values across the integer boundaries, "
         "arbitrary bytes); Trie::new on EVERY file of the corrupt-file stream (`walk open`: all single-byte overwrites with 4-8 values "
         "per byte, truncations, extensions, per-field index rewrites incl. syllable fields set to values that are not syllable codes, "
         "random index tables, one witness per clause of validate_index, the former F16/F17 witnesses and the F47 ones (a node "
         "syllable Syllable::try_from rejects), arbitrary bytes — the byte-level model of the der shapes + validate_index must predict "
         "accept/reject and the decoded sections), validate_index alone on every index assembled by the harness (`walk validate`), and "
         "Trie::lookup_* / Trie::entries() over every accepted file, each step in a child process with a 2 s watchdog; the real outcome "
         "class ok/panic/hang is part of the record and the model must predict it (the model's entries() runs with exactly the proved "
         "bound 16n+2 as fuel). Creation clause (run newctx, `sysl` records): generated directory trees in a temp dir (search paths of "
         "1-5 segments incl. empty = current directory, missing, duplicate and trailing-slash segments; word.dat / tsi.dat valid, "
         "corrupt, a directory, or only one of them; dictionary.d absent / a file / 0-6 entries valid, corrupt, empty, directories named "
         "*.dat, names that sort differently by byte and by locale, `.dat`, other extensions; swkb.dat / symbols.dat with blank lines, "
         "lines without / starting with the separator, CR LF, not UTF-8; user path :memory:, fresh, valid, corrupt, read-only, a "
         "directory, wrong extension, empty, not UTF-8, NULL with CHEWING_USER_PATH / HOME(.chewing | .local/share) / XDG_DATA_HOME; "
         "syspath NULL with CHEWING_PATH or the default, not UTF-8) -> the real SystemDictionaryLoader::{load, load_drop_in, load_abbrev, "
         "load_symbol_selector}, AbbrevTable::open, SymbolSelector::new and chewing_new2 / chewing_new in worker processes (watchdog 20 s, "
         "restart after an abort), each recomputed by Model/SysLoader.lean (the model is told per file whether the real Trie::open "
         "accepted it). distinct = distinct record text",
    trusted_base=[
        "crate der 0.7: the eight shapes the trie format uses are modelled at byte level (Model/Der.lean, shared with C11) and tied to "
        "the code by the `walk open` correspondence on every corrupted file; decoding one phrase record (PhrasesIter over a leaf's "
        "slice) stays a PARAMETER of the traversal theorems (the phrases the real PhrasesIter decodes per leaf are exported in each "
        "record); that the real Trie::new never panics is observed by the oracle on the same stream (the model is a total function)",
        "the harness reads the decoded index / phrase bytes of an opened Trie from its derived Debug output (no source hook)",
        "debug-assertion profile (the one the repository's tests and this harness build); little-endian, 4-byte c_int platform",
    ],
    assumptions=[
        "F16 / F17 (an index that is not a parent-before-child tree hung entries() and multiplied lookup's thread set; a zero "
        "syllable at a non-first child position panicked entries()) are repaired in the repository: Trie::new runs validate_index and "
        "returns Err; since the repair of C13's F47 (Syllable::try_from rejects values that are not syllable codes) validate_index also "
        "rejects a node record whose syllable try_from rejects, so that the unwrap() in entries() stays unreachable. "
        "The traversal theorems therefore carry the hypothesis `validate t = true` — not an assumption about the file but "
        "the check the code performs (modelled, in correspondence); validation_needed proves the statements false without it",
        "F39 (dictionary-file form: a hand-made or corrupt dictionary FILE with an entry under the empty key made every conversion "
        "abort) is repaired at the engine (870202b: find_best_phrase returns None for an empty range; C03 empty_key_harmless). The "
        "conversion engine is not part of this model: that a context over such a file is created, converts and commits is observed by "
        "the oracle (witness-F39-empty-key-entry placed as user, system and drop-in dictionary; stats ctx_runs_over_empty_key_file = "
        "ctx_ok_over_empty_key_file); no known class remains, any abort is reported as new. The tools do not produce such a file "
        "either: chewing-cli init-database rejects a source line without syllables (C20 F27 no-syllables, fixed) and the uhash import "
        "skips records with syllable count 0",
        "F40 (a stored phrase frequency within reach of u32::MAX aborted the first commit that learns the phrase: add with overflow in "
        "estimate.rs) is repaired in the repository (saturating_add); stored_freq_never_overflows is stated over C08's estimate model, which "
        "the translator ties to the saturating form; the witness file stays in the harness and has no oracle class any more",
        "creation clause: four defects found by this model are repaired in the repository (fix: commits of branch wp-newctx) - a syspath / "
        "userpath that is not UTF-8 aborted chewing_new2 (expect), a swkb.dat line without a separator or starting with one panicked "
        "AbbrevTable::open, an empty user path panicked UserDictionaryLoader::load (parent().expect), a blank line of symbols.dat became a "
        "nameless category whose choice panicked; the model follows the repaired code, the pre-fix behaviour is kept as witness theorems "
        "(newContextOrig_panics_notUtf8, abbrev_orig_panics, loadUserOrig_panics_empty_path, symbols_orig_blank_line_not_wf)",
        "creation model: paths are UTF-8 strings or the one value `not UTF-8`; the OS's name resolution is an arbitrary function path -> "
        "node (symbolic links, `..`, the current directory); file names inside a directory are UTF-8; unix branch of src/path.rs "
        "(not macOS / Windows); the embedded mini.dat opens (`builtin_needed`: necessary; observed on every run as the built-in "
        "fall-back); the SQLite user dictionary (*.sqlite3 user path) is an abstract parameter; I/O errors other than absence "
        "(EACCES, EIO while reading) are not modelled",
    ],
)

MANIFEST = dict(
    text="Lean 4 theorem `C12 : C12_full` (Chewing/Props/C12.lean) over executable models of the legacy uhash.dat readers (binary "
         "125-byte records, text lines; every index/slice a checked accessor), of Trie::new's structural check validate_index "
         "(Model/TrieValidate.lean, shared with C11) and of the repository's own trie traversal code (lookup thread sets, entries() "
         "explicit-stack walk, every bail_if_oob! guard) over arbitrary index tables: legacy readers and UserDictionaryLoader::load "
         "return (no panic, no fuel exhaustion) for ALL byte strings with at most one record per byte; lookup returns for ALL index "
         "tables with an answer of at most `first` phrases; for EVERY table Trie::new accepts (validate t = true): a lookup's thread set "
         "has at most n members (n = index records; threads are distinct records in ascending order), entries() never panics and "
         "finishes within 16n+2 loop iterations by a strictly decreasing measure (weight = twice the subtree size; the scan of "
         "validate_index is a breadth-first pass whose frontier argument bounds the root's subtree by n; its per-node syllable check "
         "(since the repair of C13's F47) makes every syllable entries() converts with Syllable::try_from(..).unwrap() a valid code: "
         "`ValidSyls`, `validate_node_syllables`). A uhash record (binary or text) holding a value that is not a syllable code makes "
         "the whole load an ordinary InvalidData error (`uhash_invalid_syllable_is_error`; covered by uhash_total). `trie_file_total`: for ALL "
         "byte strings the byte-level model of Trie::new (C11's DER model, then validate_index) returns Err or a Trie on which all of "
         "the above holds (open_total). `witnesses_rejected` / `unvalidated_*` / `validation_needed`: the former F16/F17 witnesses and "
         "two tables whose only flaw is a node syllable outside the code space (0x6a07, 0x8208) are rejected at open; without the "
         "validation they loop for every fuel, multiply threads, panic at both sites / at the unwrap. C11's "
         "`validate_write`: every file TrieBuilder::write produces passes the validation. Tie: the model must predict the real outcome "
         "(accept/reject of Trie::new on every corrupted file; result, panic or hang of every traversal); an independent oracle "
         "reports any panic, abort, watchdog timeout, result larger than the file, or an accepted index that is not a breadth-first tree or has a node syllable that is not a syllable code (every failure is class new: no known class remains). "
         "CREATION CLAUSE (Chewing/Props/C12NewCtx.lean over Model/SysLoader.lean = src/path.rs, SystemDictionaryLoader, AbbrevTable::open, "
         "SymbolSelector::new, the path-level part of UserDictionaryLoader::load and the control flow of chewing_new2 / chewing_new / "
         "chewing_delete; constants regenerated from the source by tools/extractors/sysloader.py incl. a fail-closed inventory of the "
         "unwrap/expect sites of chewing_new2): for EVERY file system, environment, Trie::open and path argument (NULL, UTF-8, not UTF-8) "
         "chewing_new2 returns (`newContext_no_panic`, `newContext_std_no_panic` with C12's start_total plugged in), NULL exactly when a path "
         "argument is not UTF-8 or the user dictionary cannot be loaded (`newContext_null_iff`, `loadUser_none_iff`); a missing or corrupt "
         "word.dat + tsi.dat pair falls back to the built-in dictionary (`corrupt_system_pair_falls_back`, `sys_dicts_of_created`); a drop-in "
         "that does not open is skipped, the others keep their order, order = search-path order then file-name order (`drop_in_corrupt_skipped`, "
         "`drop_in_order`, `mem_dropInNames`); split(':') keeps empty segments (`search_path_split`); both text parsers are total functions of "
         "the bytes, fail exactly on a line that is not UTF-8 (`parse_fails_iff_not_utf8`), and every table symbols.dat can yield satisfies C01's "
         "SymWF (`parseSymbols_wf`: C01's hypothesis about the symbol table is discharged at creation). Oracle: abort / hang / panic of any "
         "loader, NULL vs. the user-side kind, the dictionaries of the context vs. an independent computation over the tree.",
    note="F14/F15/F39(legacy)/F26, F40 and F16/F17 were repaired by fix: commits and are proved absent in the model of the repaired "
         "code (witnesses kept as theorems about the pre-fix decoder / the unvalidated walk). F39 (dictionary-file form) — a hand-made "
         "or corrupt file (e.g. one written directly through TrieBuilder::insert(&[], ..)) holding an entry under the empty key made "
         "every conversion abort; it is a valid file (C11 proves it reads back), so the repair belongs to the conversion engine, not to "
         "the validation — is FIXED there by commit 870202b (find_best_phrase returns None for an empty range; proved harmless in C03, "
         "empty_key_harmless); here the witness file stays in the corpus and a context over it must be created, convert and commit "
         "(oracle, class new on any abort). The dictionary compiler does not produce such a file either: chewing-cli init-database "
         "reports a source line without syllables (C20, F27 no-syllables fixed). A rejected user dictionary makes chewing_new2 return "
         "NULL and is left untouched on disk (never overwritten).",
    technique="Lean 4 proof (induction over records/lines/threads, potential-function termination argument with subtree-size weights, BFS frontier invariant) + systematic model-implementation correspondence with watchdog child processes",
)
