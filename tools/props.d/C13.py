"""C13 — check configuration (see tools/props.py for the keys)."""
from propslib import comp_scope

PROP = dict(
    extract=["bopomofo", "syllable"],
    lean_targets=["Chewing.Props.C13"],
    runs=[dict(bin="syl")],
    scope=comp_scope("syl"),
    level="proof",
    exhaustive=True,
    rule="exhaustive: every 16-bit code (accessors, spelling, removers, pop, C conversion), update on codes x 42 symbols "
         "(all codes in the thorough tier), every builder transition from every reachable builder state, the starts_with "
         "shift class of every code; plus seeded random strings and pairs. distinct = distinct record text",
    trusted_base=["kernel evaluation (`decide +kernel`) of finite table facts over the generated tables; no native_decide"],
    assumptions=["a Bopomofo symbol is modelled by its enum discriminant, a syllable by its u16 code",
                 "known finding F18: strings containing the first-tone mark are outside spell_parse (refutation proved)"],
)

MANIFEST = dict(
    text="Lean 4 theorems (Chewing/Props/C13.lean) over a bit-level model whose masks, shifts and symbol tables are regenerated "
         "from src/zhuyin/{syllable,bopomofo}.rs on every run: non-zero unique code, component / code / spelling round trips, "
         "unique spelling, the parser accepts exactly strictly-kind-increasing symbol strings (induction over all strings), "
         "update/remove act on one component, starts_with <-> agreement up to the last present component (all pairs, by "
         "arithmetic, no pair enumeration). Tie: translator + exhaustive correspondence over all 65536 codes and every "
         "builder transition. Known finding F18 (first-tone mark) is proved as a refutation and excluded by hypothesis.",
    note="Trusted: Lean kernel (axioms propext, Classical.choice, Quot.sound only), tools/extract.py, the harness and the "
         "compiled model driver. A symbol is modelled by its discriminant and a syllable by its u16 code.",
    technique="Lean 4 proof (induction + kernel-evaluated finite tables + omega) over a translator-regenerated model; exhaustive model/implementation correspondence",
)
