"""C13 — check configuration (see tools/props.py for the keys)."""
from propslib import comp_scope

PROP = dict(
    extract=["bopomofo", "syllable"],
    lean_targets=["Chewing.Props.C13"],
    runs=[dict(bin="syl")],
    scope=comp_scope("syl"),
    level="proof",
    exhaustive=True,
    rule="exhaustive: every one of the 65536 16-bit values (accepted by try_from or not; if accepted: accessors, spelling, "
         "removers, pop, C conversion, and the oracle 'an accepted value converts back from its components and its "
         "spelling'), update on every syllable value x 42 symbols, every builder transition from every reachable builder "
         "state, the starts_with shift class of every syllable value; plus seeded random strings and pairs. "
         "distinct = distinct record text",
    trusted_base=["kernel evaluation (`decide +kernel`) of finite table facts over the generated tables; no native_decide"],
    assumptions=["a Bopomofo symbol is modelled by its enum discriminant, a syllable by its u16 code",
                 "known finding F18: strings containing the first-tone mark are outside spell_parse, codes with the tone "
                 "value 5 outside accepted_roundtrip (both refutations proved)"],
)

MANIFEST = dict(
    text="Lean 4 theorems (Chewing/Props/C13.lean) over a bit-level model whose masks, shifts and symbol tables are regenerated "
         "from src/zhuyin/{syllable,bopomofo}.rs on every run: non-zero unique code, component / code / spelling round trips, "
         "unique spelling, the parser accepts exactly strictly-kind-increasing symbol strings (induction over all strings), "
         "update/remove act on one component, starts_with <-> agreement up to the last present component (all pairs, by "
         "arithmetic, no pair enumeration). All 65536 values: try_from accepts EXACTLY the codes of the tuples with initial "
         "<= 21, medial <= 3, rime <= 13, tone <= 5 (decode_total_iff; fixed finding F47: it accepted every non-zero value), "
         "every accepted code converts back from its components and from its spelling with no further premise "
         "(accepted_roundtrip), every value the parser / update produce is accepted (parse_valid, update_valid), the C "
         "function answers -1 for a rejected value and writes a text that parses back otherwise. Tie: translator (incl. "
         "the bounds of try_from) + exhaustive correspondence over all 65536 values and every builder transition; the "
         "oracle evaluates 'accepted => round trips' on all 65536 values. Known finding F18 (first-tone mark, tone value 5) "
         "is proved as a refutation (spell_parse_full_refuted, accepted_roundtrip_full_refuted) and excluded by hypothesis.",
    note="Trusted: Lean kernel (axioms propext, Classical.choice, Quot.sound only), tools/extract.py, the harness and the "
         "compiled model driver. A symbol is modelled by its discriminant and a syllable by its u16 code.",
    technique="Lean 4 proof (induction + kernel-evaluated finite tables + omega) over a translator-regenerated model; exhaustive model/implementation correspondence",
)
