"""C14 — check configuration (see tools/props.py for the keys)."""
from propslib import comp_scope

PROP = dict(
    extract=["bopomofo", "syllable", "keyboard", "layouts", "pinyin", "readings"],
    lean_targets=["Chewing.Props.C14"],
    runs=[dict(bin="layout", timeout=1800, timeout_thorough=6000)],
    scope=comp_scope("kb", "lay", "pin"),
    level="proof",
    exhaustive=True,
    rule="exhaustive for the seven single-syllable layouts: BFS through the public clone() over every state the editor can "
         "drive a layout into (thorough tier: every reachable state, also those left behind by a Commit) x 63 key codes x "
         "{plain, shift}, key_press and fuzzy_key_press per transition, remove_last / clear / is_empty / read per state, "
         "alt_syllables on all codes; all 8 keyboards x 63 key codes x 16 modifier sets and x 256 bytes (map_ascii, "
         "map_ascii_numlock). Pinyin (sampled): every initial-row^k x final-row / exact-row string of the current tables "
         "x 6 end keys x 3 variants from the implementation's own pre-state, plus seeded random key lists. "
         "distinct = distinct record text",
    trusted_base=["kernel evaluation (`decide +kernel`) of finite table facts and of the completeness checks over the generated "
                  "tables; no native_decide",
                  "the hand-transcribed context rules of Hsu / ET26 / DaChen26 / Pinyin are tied to the source by the "
                  "correspondence run only (their tables by the translator)"],
    assumptions=["a key event is modelled by (KeyIndex, KeyCode, character, modifier bits); a layout state by its u16 syllable code",
                 "the dictionary enters the soundness theorem as the predicate 'has a word for this syllable', with the premise "
                 "that it has none for the empty syllable (proved for data/word.src); in the editor-level theorems (stage B, "
                 "buffer_syllables_from_layout) this is the hypothesis hne on the environment: hasPhrase d [empty syllable] strat = false "
                 "for EVERY dictionary value d and strategy (keys change the dictionary by learning); all other components of the "
                 "environment (engines, estimator, dictionary updates) are arbitrary",
                 "known finding F21: the listed (layout, reading) pairs are excluded from completeness by hypothesis",
                 "Pinyin: freedom from builder panics is established by correspondence, not by theorem"],
)

MANIFEST = dict(
    text="Lean 4 theorems (Chewing/Props/C14.lean) over executable models of the keyboards and of all phonetic layouts whose "
         "tables are regenerated from src/editor/keyboard/*.rs, src/editor/zhuyin_layout/*.rs and data/word.src on every run. "
         "Soundness: for every list of layout operations of any length (arbitrary key events, fuzzy presses, remove_last, clear) "
         "every syllable handed over by Commit / Fuzzy is composable in C13's sense (invariant + induction, built on C13's "
         "update/remove lemmas), and what the editor inserts is non-empty given a dictionary without a word for the empty "
         "syllable (proved for the shipped readings). Completeness: for each layout an explicit key-list inverse, checked by "
         "kernel evaluation over all 1415 readings of data/word.src (full for Standard, ET, IBM, Gin-Yieh after the repairs "
         "F19/F20; for Hsu, ET26, DaChen26 and the Pinyin variants the full statement is refuted and the known-finding F21 "
         "readings are excluded - and proved to be exactly the readings that NO key list enters: an invariant of the "
         "editor's way of driving the layout + kernel evaluation over all toneless syllables x keys, resp. over all Pinyin "
         "table-row combinations). The readings of data/mini.src (built-in fallback dictionary) are proved to be a subset, so the same "
         "theorems cover them. ASCII round trip over the 95 printable characters for the seven non-remapping keyboards. "
         "Inside the editor (stage B, over the validated editor model of C06, any environment whose layout is one of the "
         "layout models): one key in EnteringSyllable leaves the layout state well-formed and changes the pre-edit buffer only "
         "by inserting exactly the syllable the layout handed over (read() after Commit, or the Fuzzy payload), well-formed "
         "and non-empty (editor_inserts_what_layout_read); lifted over whole histories of the editor model "
         "(buffer_syllables_from_layout, invariant BufferFromLayout: after EVERY key history - and every other public operation, "
         "buffer_syllables_from_layout_ops; set_syllable_editor only with a well-formed state - in all four states the layout state is "
         "well-formed and every syllable symbol in the pre-edit buffer was handed over by the layout from a well-formed state, is "
         "well-formed and non-empty; proof: outside EnteringSyllable every arm inserts / overwrites character symbols only, "
         "Proofs/EditorLinkSyl*.lean; hypothesis hne: the environment's dictionary has no word under the empty syllable, for every "
         "dictionary value and lookup strategy). That the real Editor follows the model is by correspondence (typed "
         "through a real Editor in the harness). Tie: translator + exhaustive state-space correspondence through clone() "
         "for the seven finite layouts and the keyboards - theorem correspondence_lift (generic bisimulation lemma) turns "
         "'every visited transition agrees, visited set closed' into 'every operation list of any length agrees, hence is "
         "sound' - and table-string + random correspondence for Pinyin.",
    note="Trusted: Lean kernel (axioms propext, Classical.choice, Quot.sound only), tools/extract.py, the harness and the "
         "compiled model driver. The context rules of the 26-key layouts and Pinyin are hand-transcribed and tied by "
         "correspondence. Pinyin panic-freedom is by correspondence only.",
    technique="Lean 4 proof (invariant + induction over operation lists, kernel-evaluated finite tables) over a "
              "translator-regenerated model; exhaustive model/implementation correspondence by BFS through clone()",
)
