"""C15 — check configuration (see tools/props.py for the keys)."""
from propslib import comp_scope

PROP = dict(
    extract=["capi", "bopomofo"],
    lean_targets=["Chewing.Props.C15"],
    runs=[dict(bin="capi_mem", timeout=900, timeout_thorough=7200),
          dict(bin="capi_caller", timeout=600, timeout_thorough=1800)],
    scope=comp_scope("cstr", "own"),
    level="partial",
    exhaustive=False,
    rule="copy_cstr driven directly through the hook: every capacity 0..24 and 31..33, 255..260 x a corpus of 821 (quick) / "
         "4321 (thorough) texts (all pairs of 16 atoms of 1-4 byte characters incl. U+7F/80/7FF/800/FFFF/10000/10FFFF, every "
         "multi-byte character at every offset, texts around the real capacities, seeded random) — whole buffer compared byte "
         "for byte; 3600 / 20600 byte strings (damaged encodings, exhaustive border lead/continuation pairs) for the UTF-8 "
         "decoder vs str::from_utf8. Seeded C-API histories (260 quick / 3000 thorough, 20-70 ops: keys that learn, "
         "enumerate/has_next/get of all four iterators interleaved with every other call class, heap getters of both kinds, "
         "frees incl. foreign and NULL pointers; every second history with mutations between enumerate and has_next/get; "
         "keyboard-type walks up to ~300 reads past the end; chewing_set_selKey / chewing_Configure with selection-key arrays "
         "holding Latin-1 codes 0x80..0xFF, 0, values beyond a byte and negative values, each followed by "
         "chewing_config_get_str; chewing_phone_to_bopomofo into caller buffers of 0..19 bytes) in child processes under a layout-checking allocator with the "
         "strict snapshot oracles; every context buffer dumped to its capacity after every step. valgrind memcheck: the 6 "
         "former F22 witnesses + 4 twins, 60 / 300 random histories, thorough: 150 histories with mutations inside the "
         "user-phrase enumeration - all must be clean. "
         "Caller-buffer sweep (capi_caller, child process): every `*mut c_char` out-parameter the translator enumerates "
         "(chewing_userphrase_get phrase_buf / bopomofo_buf, chewing_phone_to_bopomofo buf) called with EVERY capacity "
         "0..needed+3 on guard-zone buffers, each call twice with different canary bytes so the exact set of bytes written "
         "is observed: 176 (quick) / ~700 (thorough) user phrases of 1-11 characters of 1-4 bytes (every width at every "
         "offset) x 3 capacity families (both buffers, phrase only, bopomofo only), 1/23 (quick) / all (thorough) of the "
         "7392 accepted phone values and every 97th rejected one; oracle: no byte outside the capacity, nothing for "
         "capacity 0, NUL inside, prefix of the full text, valid UTF-8, the full text when it fits, all-or-nothing for "
         "phone_to_bopomofo, has_next lengths = text + 1; every call is also a `cstr caller` record the byte-level model "
         "recomputes (bytes written, byte for byte). "
         "distinct = distinct record text",
    trusted_base=["kernel evaluation (`decide`) of facts about generated finite tables (6 buffers, 17 names, 42 symbols, "
                  "126-row function inventory); no native_decide",
                  "the reviewed lists in tools/extractors/capi.py (Editor methods that reach the dictionary / touch only "
                  "editor state / are read-only) — an unlisted method breaks the translator",
                  "valgrind memcheck and the harness's layout-checking GlobalAlloc as the observers of invalid accesses"],
    assumptions=["ghost model: the allocator is modelled by ownership and validity, not addresses; since the F22 fix the model "
                 "calls every history safe, so memcheck is required to be clean on every history it runs",
                 "'the process performs no invalid access' is inferred through the validated ghost model and Rust's type "
                 "system for the safe code; not a theorem",
                 "allocator contract: a fresh block is never placed at the address of a live result; chewing_free itself has "
                 "no precondition in the model (after fix aeeff30 any pointer may be passed any number of times)",
                 "background dictionary reloads (the schedules of the quantifier) are covered only as far as the reload "
                 "inside a learning key event; the snapshot thread works on a clone and is not modelled",
                 "known "
                 "finding F35 (pre-edit longer than the 256-byte buffer => static text is a truncated prefix of the heap text)"],
)

MANIFEST = dict(
    text="PARTIAL. Lean 4 theorems (Chewing/Props/C15.lean). (1) Byte-level model of copy_cstr (after fix 0bd8d42) with UTF-8 "
         "encode/decode over byte lists and the round-trip lemma: for ALL texts and ALL capacities >= 1 the buffer is "
         "NUL-terminated, holds the longest whole-character prefix that fits (valid UTF-8, decodes to that prefix) and "
         "equals the heap variant's text whenever the text is shorter than the buffer; 'static = heap' is refuted for "
         "every fixed capacity (F35) and proved under utf8Len < cap; the same for every write into a buffer the CALLER supplies (chewing_userphrase_get both "
         "buffers via copy_cstr_to_caller, chewing_phone_to_bopomofo; the translator enumerates every `*mut c_char` "
         "parameter and every raw mutable slice site: caller_buf_params_reviewed): for ALL texts and ALL capacities incl. "
         "0 and capacities smaller than chewing_userphrase_has_next reported, the bytes written stay inside the capacity, "
         "the buffer reads as NUL-terminated valid UTF-8 cut at a character boundary whatever it held before, the whole "
         "text when it fits (caller_copy_in_bounds, caller_copy_len_le for arbitrary byte strings, caller_text_valid, "
         "fit_copy_in_bounds / fit_copy_text; old_caller_copy_refuted: the byte cut before fix F35b); "
         "keyboard names < 32 and syllable text < 16 by kernel "
         "evaluation of regenerated tables; chewing_config_get_str(selection_keys) hands out valid UTF-8 decoding to one "
         "character per key, or ERROR exactly when a key's low byte is 0, for EVERY array of integers the legacy setters may "
         "have stored (selkeys_getter_wellformed; raw_selkeys_refuted for a C string built from the raw bytes). (2) Ghost ownership model of the context (OWNED registry, FOUR collected "
         "iterators with Peekable's cache - since fix e054b2f the user-phrase iterator owns a snapshot too, since fbe3953 the "
         "keyboard-type counter is fused): every call other than chewing_free is defined in every state (collected_iters_safe, "
         "ub_only_at); NO history of calls in any order with any arguments is undefined (history_defined, no premise; "
         "userphrase_iter_safe = the former finding F22 at full strength; old_userphrase_iter_refuted keeps the witness for the "
         "code before the fix); no other call changes a pending user-phrase enumeration (userphrase_iter_frame: snapshot); an "
         "exhausted enumeration stays exhausted for any number of reads (kbtype_walk_total; old_kbtype_counter_refuted: the "
         "256th read overflowed the old u8 counter); under the allocator contract every history keeps 'registry = live results "
         "with their true kinds' (history_ok), so chewing_free releases every live result "
         "and ignores every other pointer - NULL, foreign, interior, released before: free_total. NOT a theorem: that the "
         "real process performs no invalid access — inferred from the model, validated by (a) translator: buffer sizes, "
         "copy_cstr / chewing_free / user-phrase iterator (owned Vec) / fused keyboard counter / selection-keys getter shapes, inventory of 126 exported functions, 65 unsafe blocks, iterator sites, "
         "classification of functions that can reach dictionary mutation; (b) correspondence: every string the API hands out (static buffers, heap results incl. "
         "chewing_config_get_str of both string options, caller buffers of userphrase_get and phone_to_bopomofo) checked "
         "for NUL termination and valid UTF-8 by the harness, every returned buffer "
         "dumped to capacity and recomputed by the model, protocol results and registry replayed by the model per call, "
         "valgrind memcheck verdicts compared with the model's ub flag. Fixed: F35a (no terminator / cut character), F35b (chewing_userphrase_get cut a character when the caller's buffer was "
         "smaller than reported), F23 "
         "(free with wrong layout), F23b (stale registry entries: free of a non-owned block, found by the harness), F22 (user-phrase "
         "iterator borrowed the dictionary: use after free under memcheck), F42 (keyboard-type counter overflow). Known: F35 "
         "(overlong pre-edit truncated).",
    note="Trusted: Lean kernel (axioms propext, Classical.choice, Quot.sound only), tools/extractors/capi.py with its reviewed "
         "method lists, the harness, valgrind, the compiled model driver. Schedules (background reload) are only covered at "
         "the granularity of one key event.",
    technique="Lean 4 proof (induction over texts / histories, invariants, omega; kernel-evaluated generated tables) over a "
              "byte-level string model and a ghost ownership model; translator + byte-for-byte and per-call correspondence; "
              "valgrind memcheck and a layout-checking allocator validate the ghost ub flag",
    category="proof",
)
