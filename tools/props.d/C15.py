"""C15 — check configuration (see tools/props.py for the keys)."""
from propslib import comp_scope

PROP = dict(
    extract=["capi", "bopomofo"],
    lean_targets=["Chewing.Props.C15"],
    runs=[dict(bin="capi_mem", timeout=900, timeout_thorough=7200)],
    scope=comp_scope("cstr", "own"),
    level="partial",
    exhaustive=False,
    rule="copy_cstr driven directly through the hook: every capacity 0..24 and 31..33, 255..260 x a corpus of 821 (quick) / "
         "4321 (thorough) texts (all pairs of 16 atoms of 1-4 byte characters incl. U+7F/80/7FF/800/FFFF/10000/10FFFF, every "
         "multi-byte character at every offset, texts around the real capacities, seeded random) — whole buffer compared byte "
         "for byte; 3600 / 20600 byte strings (damaged encodings, exhaustive border lead/continuation pairs) for the UTF-8 "
         "decoder vs str::from_utf8. Seeded C-API histories (260 quick / 3000 thorough, 20-70 ops: keys that learn, "
         "enumerate/has_next/get of all four iterators interleaved with every other call class, heap getters of both kinds, "
         "frees incl. foreign and NULL pointers) in child processes under a layout-checking allocator; every context buffer "
         "dumped to its capacity after every step. valgrind memcheck: F22 witnesses + clean twins (exact), 60 / 300 "
         "disciplined histories (must be clean), thorough: 150 undisciplined histories (errors must be predicted). "
         "distinct = distinct record text",
    trusted_base=["kernel evaluation (`decide`) of facts about generated finite tables (6 buffers, 17 names, 42 symbols, "
                  "126-row function inventory); no native_decide",
                  "the reviewed lists in tools/extractors/capi.py (Editor methods that reach the dictionary / touch only "
                  "editor state / are read-only) — an unlisted method breaks the translator",
                  "valgrind memcheck and the harness's layout-checking GlobalAlloc as the observers of invalid accesses"],
    assumptions=["ghost model: the allocator is modelled by ownership and validity, not addresses; `mutate` over-approximates "
                 "(every call of a function that CAN reach learn/unlearn/reopen invalidates the borrowed iterator), so the "
                 "model flags the language-level hazard; memcheck confirms it exactly on the witness corpus and is only "
                 "required to be clean where the model says safe",
                 "'the process performs no invalid access' is inferred through the validated ghost model and Rust's type "
                 "system for the safe code; not a theorem",
                 "allocator contract: a fresh block is never placed at the address of a live result; chewing_free itself has "
                 "no precondition in the model (after fix aeeff30 any pointer may be passed any number of times)",
                 "background dictionary reloads (the schedules of the quantifier) are covered only as far as the reload "
                 "inside a learning key event; the snapshot thread works on a clone and is not modelled",
                 "known finding F22 (user-phrase iterator borrows the dictionary): refutation + partial theorem; known "
                 "finding F35 (pre-edit longer than the 256-byte buffer => static text is a truncated prefix of the heap text)"],
)

MANIFEST = dict(
    text="PARTIAL. Lean 4 theorems (Chewing/Props/C15.lean). (1) Byte-level model of copy_cstr (after fix 0bd8d42) with UTF-8 "
         "encode/decode over byte lists and the round-trip lemma: for ALL texts and ALL capacities >= 1 the buffer is "
         "NUL-terminated, holds the longest whole-character prefix that fits (valid UTF-8, decodes to that prefix) and "
         "equals the heap variant's text whenever the text is shorter than the buffer; 'static = heap' is refuted for "
         "every fixed capacity (F35) and proved under utf8Len < cap; keyboard names < 32 and syllable text < 16 by kernel "
         "evaluation of regenerated tables. (2) Ghost ownership model of the context (OWNED registry, three collected "
         "iterators, the borrowing user-phrase iterator with Peekable's cache, dictionary generation): collected iterators "
         "can never be invalidated (all states, all ops); undefined behaviour arises only at userphrase has_next/get or at "
         "chewing_free; a history with no possibly-mutating call between enumerate and a later has_next/get is defined "
         "at every step and keeps 'registry = live results with their true kinds' (so chewing_free releases every live result "
         "and ignores every other pointer - NULL, foreign, interior, released before: free_total); F22 refutation with the concrete history. NOT a theorem: that the "
         "real process performs no invalid access — inferred from the model, validated by (a) translator: buffer sizes, "
         "copy_cstr / chewing_free shapes, inventory of 126 exported functions, 64 unsafe blocks, iterator sites, "
         "classification of functions that can reach dictionary mutation; (b) correspondence: every returned buffer "
         "dumped to capacity and recomputed by the model, protocol results and registry replayed by the model per call, "
         "valgrind memcheck verdicts compared with the model's ub flag. Fixed: F35a (no terminator / cut character), F23 "
         "(free with wrong layout), F23b (stale registry entries: free of a non-owned block, found by the harness). Known: F22, F35 (overlong pre-edit truncated).",
    note="Trusted: Lean kernel (axioms propext, Classical.choice, Quot.sound only), tools/extractors/capi.py with its reviewed "
         "method lists, the harness, valgrind, the compiled model driver. Schedules (background reload) are only covered at "
         "the granularity of one key event.",
    technique="Lean 4 proof (induction over texts / histories, invariants, omega; kernel-evaluated generated tables) over a "
              "byte-level string model and a ghost ownership model; translator + byte-for-byte and per-call correspondence; "
              "valgrind memcheck and a layout-checking allocator validate the ghost ub flag",
    category="proof",
)
