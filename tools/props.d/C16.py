"""C16 — check configuration (see tools/props.py for the keys)."""
from propslib import comp_scope

PROP = dict(
    extract=["config"],
    lean_targets=["Chewing.Props.C16"],
    runs=[dict(bin="config", timeout=900, timeout_thorough=3000)],
    scope=comp_scope("cfg"),
    level="proof",
    exhaustive=True,
    rule="exhaustive part: 15 option names x every integer -3..45 plus i32 extremes / wrap-around points x {named, legacy} "
         "entry point, from 6 (quick) / 40 (thorough) different pre-states, all getters read before and after every call; "
         "17 layouts x 95 printable keys x {by number, by name} from fresh contexts; every layout number -3..45 and 8/16/24-bit "
         "wrap-around points; all 17 names. Seeded part: string-option stream (valid, near-miss, non-ASCII, wrong length, "
         "lossy UTF-8), legacy selection-key arrays, chewing_Configure, pairs of layout selections, 2-3 key sequences. "
         "One evaluation = one transcript record recomputed by the model from the implementation's own pre-state; "
         "distinct = distinct record text",
    trusted_base=["kernel evaluation (`decide`) of facts about the generated finite tables (13 option rows, 17 layouts, "
                  "values inside a documented range); no native_decide",
                  "the documented names / ranges / legacy pairs / layout numbering are transcribed by hand in Props/C16.lean "
                  "(DocNames, DocRange, LegacySpec, DocKbNames) and, independently, in harness/src/bin/config.rs"],
    assumptions=["the configuration of a context is modelled as (EditorOptions, installed engine, kb_compat, keyboard, "
                 "syllable editor, sel_keys); editing buffers are out of the model",
                 "key handling is a function of the context: the theorems show both selection APIs give the same context; "
                 "that the real handlers depend on nothing else is covered behaviourally (harness oracle), not proved",
                 "lookup_strategy and the installed engine object are not observable through the C API: modelled, not compared",
                 "known finding F05b: chewing_set_selKey stores integers that are not ASCII codes (refutation proved, "
                 "partial theorem excludes exactly that class)"],
)

MANIFEST = dict(
    text="Lean 4 theorems (Chewing/Props/C16.lean) over an executable model of the C configuration API that interprets tables "
         "regenerated from capi/src/io.rs, capi/src/public.rs, src/editor/mod.rs, src/editor/zhuyin_layout/mod.rs on every run "
         "(option-name lists, per-option validation/store rule, getter rule, legacy forwarders, KeyboardLayoutCompat "
         "name/number tables, BOTH keyboard dispatch tables): in-range values read back (all options, values, contexts), "
         "everything else is rejected with the whole context unchanged, the accepted set equals the documented range, setting "
         "one option changes no other, each legacy setter/getter equals its named option, selecting a layout by number and by "
         "name yields the same context, unknown numbers select the default, after any history of configuration calls the "
         "reported layout determines the keyboard and syllable editor in effect, selection keys round-trip / are rejected. "
         "Tie: translator + exhaustive step-wise correspondence (pre-state exported) + behavioural identification of the pair "
         "in effect against references built with the Rust API. Four defects repaired by fix: commits (F24, F05, get_str abort, "
         "KBType 8-bit truncation); known finding F05b (legacy selection keys unvalidated) proved as refutation + partial.",
    note="Trusted: Lean kernel (axioms propext, Classical.choice, Quot.sound only), tools/extractors/config.py, the harness and "
         "the compiled model driver; the hand-transcribed documentation tables. Key handlers themselves are C14's subject.",
    technique="Lean 4 proof (structural lemmas + kernel-evaluated finite tables + omega) over a translator-regenerated "
              "table-interpreting model; exhaustive model/implementation correspondence with exported pre-states",
)
