"""C17 — queries are pure, contexts are independent, reset gives a clean editor."""
from propslib import comp_scope

PROP = dict(
    extract=["editor", "process_state", "sysloader", "capi_keys", "capi_getters"],
    lean_targets=["Chewing.Props.C17", "Chewing.Props.C12NewCtx", "Chewing.Props.C17CApi"],
    runs=[dict(bin="editor", args=["--queries"], tag="editor"),
          dict(bin="editor", args=["--c17-pairs"], tag="pairs"),
          dict(bin="capi_pure", tag="capi", timeout=900, timeout_thorough=3000),
          dict(bin="newctx", tag="newctx", timeout=900, timeout_thorough=3000),
          dict(bin="capi_props", tag="capi_props", args=["--histories", "300", "--calls", "40"],
               args_thorough=["--histories", "6000", "--calls", "40"])],
    scope=comp_scope("ed", "edq", "sysl", "capiget"),
    level="proof",
    exhaustive=False,
    rule="one evaluation = one transcript record recomputed by the model from the implementation's own complete pre-state: "
         "`ed` = one operation of the real editor (every public entry point, generated histories), `edq` = the answers of the 20 "
         "modelled getters on the state after every operation, compared with the model's Editor.query; distinct = distinct record "
         "text. The paired executions (stats pairs.* and capi.*) are oracle runs, not counted as evaluations: Rust API — with/without "
         "getter bursts, reset in the state a random prefix ends in (all four states; saved cursors, chosen alternative, pending flush) "
         "vs. a newly constructed editor (same options, layout kind, engine, user-dictionary entries; estimator clock equal, or in half "
         "of the sessions restarted from the newest stored time with clocks and time stamps left out of the comparison), A alone vs. A beside other contexts (one on a second thread); C API — the same "
         "three experiments through chewing_* calls in worker processes, plus section D: 2-3 contexts created in ONE process with "
         "DIFFERENT creation arguments (own system data directory with its own word.dat/tsi.dat or none, drop-in dictionary, "
         "symbols.dat and swkb.dat variants or none; user path :memory: / new file / copied file; initial options), in both creation "
         "orders, interleaved on one thread and with one thread per context (every other trace also created on those threads), every "
         "call's return value and the full observation (all getters, the four enumeration loops — the symbol-table candidate list "
         "after the backquote key / Ctrl-0/1, easy-symbol output, conversions) compared with the SAME context run ALONE in a fresh "
         "process (stats capi.D.*: pairs with different symbols.dat / swkb.dat / dictionaries); plus the logger-slot witness. "
         "Records `capiget obs` (run capi_props, work package capiget): one evaluation = the answers of ALL modelled C getters "
         "(35 groups: buffer / cursor / bopomofo / commit / aux Check, Len, String and String_static, the candidate counters, "
         "string_by_index(_static) for every index and three indices beyond, the Enumerate/hasNext/String loop, list_has_next/prev, "
         "the interval loop, CheckIgnore / CheckAbsorb, eleven legacy mode getters, zuin_Check / zuin_String + count, get_phoneSeq(Len)) of the REAL C context after one call of a generated "
         "C-API history, recomputed by the Lean getter model (Model/CApiGetters.lean over the table regenerated from io.rs) from the "
         "answers of the twin editor's Rust getters; #stat capi_props.getter_records, .getter_records_with_open_list",
    trusted_base=["hook H1 (Editor::verif_snapshot, TrieBuf::verif_snapshot) is read-only; layout and conversion answers are recorded "
                  "through wrapper objects installed through the public constructors",
                  "the C layer (capi/src/io.rs): the getters are modelled (work package capiget: Model/CApiGetters.lean, purity theorems "
                  "Props/C17CApi.lean, records `capiget obs`), as are the key / candidate / buffer calls (Model/CApiOps.lean) and the four "
                  "iterator slots and the logger slot; independence of contexts and the reset behaviour of the C layer rest on the "
                  "differential executions of harness/src/bin/capi_pure.rs",
                  "thread schedules are not modelled; the harness runs another context freely on a second thread",
                  "process-wide state: the translator (tools/extractors/process_state.py) enumerates every static / static mut / "
                  "thread_local! / lazy_static! item of capi/src and src, classifies immutable tables vs. stateful items and fails "
                  "closed on a stateful item outside the reviewed list (LOGGER, OWNED, cfg-guarded hook CALLBACK); state kept "
                  "outside Rust statics (files, environment variables read at creation when NULL paths are passed) is a creation "
                  "argument of the model, not shared state",
                  "creation model (Model/SysLoader.lean): the OS's name resolution is an arbitrary function path -> node; the locality "
                  "theorems are about path STRINGS (two different strings naming the same directory through a symbolic link or `..` are "
                  "different paths to the model); the user-side loader below the path-level decisions is a parameter with the stated "
                  "locality property (`UserLocal`, proved for the standard loader `userFileStd` over Model/Loader.lean)"],
    assumptions=["a query is: every &self getter of Editor (Rust API); at the C level every plain getter, and the enumerate-style calls "
                 "(cand/interval/kbtype/userphrase Enumerate, hasNext, String/Get), which are stateful by design and write only their own "
                 "iterator slot: an observer reads a slot only after its own Enumerate",
                 "two contexts do not share a user-dictionary file (each has its own dictionary value / in-memory user dictionary)",
                 "'fresh editor with the same configuration and user dictionary' = the public constructors applied to the same options, "
                 "engine, layout kind, dictionary contents, tables and estimator clock; the pending flush level (non-zero only directly "
                 "after an API learn/unlearn) is the one field a reset keeps and a constructor cannot set (reset_is_fresh states it)",
                 "the estimator clock (a new C context restarts it from the newest stored time) and the pending flush level are "
                 "unobservable — PROVED (reset_is_fresh_modulo_clock, setMeta_invisible; step property applyR_metaEq through every arm of "
                 "the state machine, all 14 operations, Proofs/EditorLinkMeta.lean + EditorLinkMeta2.lean, discharging "
                 "resetFreshModuloClock_of_relation) under the hypothesis MetaBlindEnv on the components behind Env: the estimate does not "
                 "depend on the clock (C08: delta t = 0 on the editor path), the time stamp stored by update_phrase is unobservable, "
                 "reopen+flush leaves the observable dictionary unchanged; metaBlind_needed shows the hypothesis is needed (an estimator "
                 "that reads the clock tells a reset editor from a fresh one). The hypothesis itself is not proved for the real "
                 "components here; it is covered by the paired executions with a restarted clock (Rust API) and with new C contexts",
                 "known finding F33: the logger slot is process-wide (refutation proved, partial theorem excludes exactly that class)",
                 "chewing_userphrase_has_next/get without a preceding enumerate and chewing_free(chewing_get_selKey()) are not exercised: "
                 "both are memory-unsafe after updates (C15's subject), observed as aborts while building this harness"],
)

MANIFEST = dict(
    text="Lean 4 theorems (Chewing/Props/C17.lean, definitions in Proofs/EditorPure.lean) over the executable editor state-machine "
         "model (Model/Editor.lean: every public entry point), for every environment and EVERY editor value: query_pure / "
         "insert_getters (a history with getters inserted anywhere ends in the same editor with the same return values; a repeated "
         "getter answers the same) — true by construction in a functional model, the content is the correspondence below; "
         "insert_cgetters / enumerate_overwrites / interval_loop for a small model of the C context's iterator slots (enumerate-style "
         "calls write only their slot); contexts_independent / contexts_independent_panic / steps_commute / other_context_untouched (an interleaved history of "
         "two editors projects to the two separate histories, return values included; its panic, if any, is the panic of one "
         "context alone); creation included: a process model (Proofs/ProcessState.lean: live contexts by id + logger slot; "
         "chewing_new2 takes what ITS syspath/userpath hold — dictionaries, swkb.dat, symbols.dat, clock — as CreateArgs) with "
         "creation_args_local (any history of creations with any arguments, calls and deletions: the events of a context are those "
         "of its own calls run alone in a fresh process), new2_reads_its_arguments_only, process_step_other, and the translator's "
         "inventory of process-wide items pinned by process_state_inventory / new2_names_logger_only (a new static cache breaks the "
         "translator: fails closed); the process-wide logger slot as an explicit model "
         "with logger_isolated_refuted (finding F33) and logger_isolated_partial; clear_eq_fresh / reset_is_fresh (Editor::clear "
         "yields exactly the constructors' editor for the same configuration, dictionary, tables, layout object and clock, up to the "
         "pending flush level; hence every continuation with queries anywhere agrees), its bisimulation form (Bisim, bisim_runs, "
         "reset_is_fresh_bisim), ctx_reset_eq_fresh / ctx_reset_is_fresh for the C context with its iterator slots (all call lists, "
         "slot reads without Enumerate included), query_meta_blind, processKey_dirty, fresh_by_constructors, the two reset "
         "counter-examples before/after their fixes, and reset_is_fresh_modulo_clock (a reset editor vs. a fresh editor with an "
         "ARBITRARY estimator clock and flush level 0: indistinguishable by any history of operations and queries, in every environment "
         "satisfying MetaBlindEnv = clock-independent estimate, unobservable stored time stamps, reopen+flush invisible; by the frame "
         "proof applyR_metaEq through every arm of the state machine; metaBlind_needed: false without the hypothesis). Tie: per-step correspondence of model and real editor for every operation and "
         "for the 20 getters (edq records), plus the three paired-execution experiments on the real Rust API and on the real C API "
         "(oracle, child processes). Two genuine defects repaired by fix: commits (F25: saved cursors survive a reset; chewing_Reset kept the "
         "iterator slots); F33 (process-wide logger slot) is a known finding. CREATION (Chewing/Props/C12NewCtx.lean over Model/SysLoader.lean, the "
         "model of chewing_new2 / src/path.rs / SystemDictionaryLoader over an arbitrary file system): `sysHalf_local`, `newContext_local`, "
         "`newContext_local_env` - the created context (or NULL) depends on the file system only at the paths built from ITS syspath (five probes "
         "per search-path segment and the entries of each segment's dictionary.d) and ITS userpath (the file, uhash.dat and chewing.sqlite3 "
         "beside it; for NULL arguments the paths the environment yields and the probe of $HOME/.chewing); `write_outside_invisible`, "
         "`disjoint_creations_independent`; `process_creation_local` / `process_history_local` link it to the process model: the CreateArgs of "
         "`creation_args_local` are COMPUTED by the creation model (`createArgs`) and a process history is the same over file systems that agree "
         "on each context's own reach. Tie: `sysl` records of run newctx + its oracle (files written outside the search path between two loads). "
         "C GETTERS IN THE MODEL (round 3, work package capiget: Model/CApiGetters.lean + Props/C17CApi.lean + Gen/CApiGetters.lean): the "
         "translator (tools/extractors/capi_getters.py, fail closed) regenerates from capi/src/io.rs one row per plain getter (Editor method "
         "read, conversion, NULL answer) and checks the nine bodies of the enumeration protocol against the reviewed text; the model "
         "interprets the table over the facts the getters read (GFacts.ofEditor: the Rust getters of the editor model) with the "
         "getter-only state explicit (static buffers, cand_iter, interval_iter). Theorems: getter_table_documented, value_* (closed form "
         "of every plain getter), get_keeps_ctx (no getter changes editor / selection keys / keyboard), getters_do_not_disturb (getter "
         "calls of any kind interleaved anywhere in a history of modelled calls change no return value and not the final context), "
         "insert_getter_anywhere, repeat_getter, buffer_check_iff_len, cursor_le_len_after_history (C05 through the glue), "
         "commit_check_is_glue_getter / commit_check_iff_key_result (C02 / C06), total_page_ceil / current_page_in_range (C07), "
         "check_done_iff / counters_zero_when_done, aux_check_iff_length, enumerate_then_loop, static_eq_heap_fits / static_prefix (C15), "
         "null_answers, value_mode; buffer_len_is_chars_refuted (buffer_Len counts symbols, a syllable without a word is displayed "
         "spelled out). Tie: records `capiget obs` (every call of capi_props: Lean getter model over the twin editor's Rust getters = "
         "the real C getters; the twin editor = the Lean editor model is the `ed` correspondence). Also modelled: the deprecated "
         "zuin_Check (= bopomofo_Check ^ 1: zuin_is_inverted_bopomofo, -2 for NULL) / zuin_String, get_phoneSeq(Len) "
         "(phone_seq_len_le_buffer_len). Not modelled: get_KBType / KBString, get_selKey, userphrase enumeration (compared with the twin only).",
    note="Theorem: everything stated about the Lean model (the clock / flush-level unobservability under the explicit environment "
         "hypothesis MetaBlindEnv). Correspondence: model = real editor per step and per getter (hook H1). "
         "Oracle only (no model): the C layer's purity / Reset / independence, threads. Trusted: Lean kernel (propext, "
         "Classical.choice, Quot.sound), the read-only snapshot hooks, harness + compiled model driver.",
    technique="Lean 4 proof (induction over histories, product construction, definitional unfolding of clear vs. constructors, relational frame "
              "proof per arm of the state machine for the clock / flush level) over "
              "the modelled editor; per-step and per-getter model/implementation correspondence; differential paired executions",
)
