"""C18 — English and full-width modes pass characters through faithfully."""
from propslib import fn_scope

PROP = dict(
    extract=["editor"],
    lean_targets=["Chewing.Props.C18"],
    runs=[dict(bin="editor", args=["--script", "c18"], tag="editor-c18-exhaustive"),
          dict(bin="editor")],
    scope=fn_scope("ed key", "ed setopts"),
    level="proof",
    exhaustive=True,
    rule="exhaustive part (run editor-c18-exhaustive): all 95 printable ASCII characters (Qwerty map_ascii events) x "
         "{half, full width} x {English, Chinese} x {empty buffer, 3-symbol buffer with the cursor at the start / after the "
         "first symbol / at the end} x {mode set by the configuration call, mode reached through the CapsLock / Shift-Space "
         "keys, with double toggles in mid-composition} = 760 character cells per phonetic layout, followed by the 15 keypad characters (NumLock events, verbatim in every mode) (quick: 16 sessions over "
         "rotating layouts; thorough: all 10 layouts), every step typed into the real editor and recomputed by the model from "
         "the implementation's own pre-state. The same run continues with the crossing-phrase sessions (quick 8, thorough 48): the "
         "script teaches overlapping phrases (AB + BC over A B C, or AB + ABC + CD over A B C D - only overlapping phrases give "
         "alternatives that read differently), types the syllables, presses Tab 1..3 times at the end of the buffer and changes a "
         "mode in every way (CapsLock in Entering / EnteringSyllable / Selecting / Highlighting, Shift-Space enabled / disabled, "
         "set_editor_options flipping the language, the form, both, also in EnteringSyllable / Selecting / Highlighting; half of "
         "them there and back), then types a shifted letter and commits with Enter = 36 scenarios per session; #stat "
         "c18_mode_change.<kind>.<state>, c18_mode_changes_with_nth_nonzero[_reading_differently][.<kind>.<state>], "
         "c18_mode_changes_display_strings_compared; the run fails if no mode change of a kind met a non-default alternative that "
         "reads differently. Sampled part (run editor): generated histories with toggles and option changes "
         "at random points. distinct = distinct record text",
    trusted_base=["kernel evaluation (decide +kernel) of full_width_symbol_input over the 95 characters and the 95 x 95 pairs, "
                  "on tables regenerated from src/conversion/symbol.rs by the translator on every run",
                  "hook H1 (Editor::verif_snapshot, read-only)"],
    assumptions=["'printable ASCII key' = the event KeyboardLayout::map_ascii produces on a keyboard layout that does not remap "
                 "keys (character key code, Shift at most and never on Space, no Ctrl, no NumLock); keypad keys (NumLock "
                 "modifier) are passed verbatim in either form (numlock_key_verbatim) and are outside the statement",
                 "the whole-key theorems for the non-empty buffer and for the toggles assume the buffer is within "
                 "auto_commit_threshold; the *_linked versions do not: in state Entering the bound is an invariant of every key "
                 "history (buffer_bounded_along) for every environment satisfying C01's EnvOK, from C01's reachable-state "
                 "invariant; in the other states the buffer may exceed the threshold until the state returns to Entering "
                 "(simple engine: a typed syllable opens its list first; fuzzy input inserts while phonetic keys are pending); the "
                 "state-machine-step versions (eng_key_inserts_dispatch, capslock_dispatch, capslock_dispatch_text) need no "
                 "assumption at all, nor do capslock_keeps_nth / shiftspace_keeps_nth (the auto-commit leaves nth_conversion alone)",
                 "toggle_keeps_display_partial: 'the text shown is as before' is derived from equality of (engine, dictionary, "
                 "composition, nth_conversion), of which the model's display / conversion are functions; the dictionary is the "
                 "same value, or - at the end of a KEY when a user-dictionary update was pending - the flushed one, for which the "
                 "hypothesis FlushKeepsConvert (the engine answers the same after reopen + flush) is needed; excluded class of the "
                 "full statement (toggle_keeps_display_refuted): a key toggle pressed while the buffer is over "
                 "auto_commit_threshold - the key's auto-commit pushes the leading part out (the oracle checks 'suffix of the old "
                 "buffer, nth unchanged' there)",
                 "Chinese mode: the theorems cover the toggles and the option frame; the character rule is evaluated by the "
                 "oracle for shifted letters (the branch shared with English mode)"],
)

MANIFEST = dict(
    text="Lean 4 theorems (Chewing/Props/C18.lean) over the executable editor state-machine model, for every environment and "
         "every editor value (hence at every point of every history). Table part, by kernel evaluation over the tables "
         "regenerated from the source: fullwidth_total, fullwidth_not_ascii, fullwidth_inj on the 95 printable characters "
         "(eng_distinct: distinct characters stay distinct in either form). English arm: english_key (a printable key in "
         "English mode reaches commit-or-insert with the character itself / its full-width replacement, consulting neither "
         "dictionary nor layout), eng_key_commits (empty buffer: answered Commit, commit buffer exactly that one character, "
         "buffer, state and options untouched; total), eng_key_inserts / eng_key_inserts_dispatch (inserted exactly at the "
         "cursor, cursor + 1, nothing else moves, nothing committed). Toggles: capslock_toggles_lang / capslock_dispatch in "
         "all four states (language mode flipped, no other option changed, symbols, gaps and selections exactly as before), "
         "shiftspace_toggles_form, shiftspace_disabled, form_fixed_outside_entering, options_change_only_by_toggle (no other "
         "key in any state changes any of the 14 options), setOptions_preserves_buffer. The text SHOWN (round 2): a mode change "
         "never touches the alternative chosen with Tab - SameText (composition, nth_conversion, engine, dictionary up to the "
         "key's flush, cursor and saved cursors unless a candidate list is closed) holds across the CapsLock key in each of the "
         "four states (capslock_dispatch_text with no premise, capslock_keeps_text), across the effective Shift-Space key "
         "(shiftspace_keeps_text) and across set_editor_options + revalidate_selecting with ANY new options "
         "(setOptions_keeps_text, setOptions_total); SameText.display: hence Editor::display and intervals() answer the same; "
         "capslock_keeps_nth / shiftspace_keeps_nth: nth_conversion is untouched whatever the buffer length; in one piece "
         "toggle_keeps_display_partial over the event type ModeChange, with the full statement toggle_keeps_display_full refuted "
         "(toggle_keeps_display_refuted) exactly by a key toggle on a buffer over the limit (overEditor, reachable), and "
         "non-vacuity on an environment with two alternatives that read differently (nthEditor: nth = 1 stays on display across "
         "CapsLock, Shift-Space, the setter). Linked (round 2, Proofs/EditorLink.lean): "
         "bounded_after_key_linked (C05's bound with C01's invariant in place of the tiling premise, all four states), "
         "bounded_step / buffer_bounded_along / buffer_bounded_fresh (EditorInv + 'len <= auto_commit_threshold in Entering' is an "
         "invariant of every key history, which also runs to the end), and the whole-key theorems restated from it without a "
         "premise on the buffer length: capslock_toggles_lang_linked, shiftspace_toggles_form_linked, eng_key_inserts_linked "
         "(below the threshold: Absorb, exactly one character inserted at the cursor; AT the threshold: the character is "
         "inserted, the buffer overflows by one and a non-empty leading part is pushed out, answered Commit). Chinese mode, the branches sharing the tables: chinese_shifted_letter (same behaviour as "
         "English mode), chinese_shifted_symbol (special symbols are inserted into the buffer in either form). Tie: translator for the symbol "
         "tables; exhaustive typed sweep of all 760 character cells through the real editor with per-step model "
         "correspondence, plus the property evaluated directly on the real editor by an oracle written from the statement "
         "(one character, verbatim / wide and standard full-width for letters-digits-space, observed mapping injective, "
         "option frame; at EVERY mode change - CapsLock key in any state, effective Shift-Space, set_editor_options changing the "
         "language mode or the character form - the STRING display() shows before and after, the composition (symbols, gaps, "
         "selections), nth_conversion, the cursor and the saved cursors, the commit string are compared: equal, except that the "
         "pending phonetic keys may be dropped, that closing a candidate list returns to the saved cursor, and that a buffer "
         "already over the limit loses a leading part to the key's auto-commit - exactly what the theorems allow). The "
         "crossing-phrase sessions put a non-default, differently reading alternative under every kind of mode change (seeded "
         "change 'language toggle resets nth_conversion': concrete failing input). F01 (a key without a full-width form aborted) "
         "was repaired by a fix: commit.",
    note="Trusted: Lean kernel (standard axioms), the table translator, the read-only snapshot hook, harness + compiled model "
         "driver. The keyboard-layout matrices (Qwerty map_ascii) are exercised by the sweep, not modelled; layouts that "
         "remap keys are outside the statement.",
    technique="Lean 4 proof (kernel-evaluated finite tables regenerated by a translator; case analysis over the modelled "
              "key-event state machine) + exhaustive typed sweep with per-step model/implementation correspondence and a "
              "statement-level oracle",
)
