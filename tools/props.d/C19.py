"""C19 — legacy user data is migrated completely, exactly once, and never destroyed."""
from propslib import fn_scope

PROP = dict(
    extract=["bopomofo", "syllable"],
    lean_targets=["Chewing.Props.C19"],
    runs=[dict(bin="legacy", timeout=900)],
    scope=fn_scope("loader start", "loader cstart", "loader learn", "loader encbin"),
    level="proof",
    exhaustive=False,
    rule="one evaluation = one start-up (UserDictionaryLoader::load in-process, chewing_new2 in a child process) or one "
         "learn-and-close step on a temp directory, recomputed by the model from the exported pre-state (dictionary file contents "
         "+ legacy file bytes): generated valid binary/text stores (1-11 syllables, deleted and negative records, lifetimes across "
         "the u16 boundary), first start, second start, learning, restart; the legacy file is compared byte-for-byte afterwards. "
         "distinct = distinct record text",
    trusted_base=[
        "the new user dictionary is abstract (a key-sorted map); that closing it stores the map in chewing.dat and re-opening reads "
        "it back is C10/C11's subject — here it is observed on every record (file contents after close are part of the record)",
        "SQLite stores (chewing.sqlite3, v1 schema) are not exercised: the harness builds without the `sqlite` feature",
        "little-endian, 4-byte c_int platform for the binary format",
    ],
    assumptions=[
        "ValidLegacy = the file is the encoding (encodeBin / a well-formed text file) of records with pairwise distinct keys; "
        "a text file containing any malformed line (e.g. a negative number) is rejected as a whole by the reader and migrates nothing",
    ],
)

MANIFEST = dict(
    text="Lean 4 theorems (Chewing/Props/C19.lean) over the model of UserDictionaryLoader::load on an abstract user directory "
         "{chewing.dat?, uhash.dat?, chewing.sqlite3?} with the legacy readers of Model/Uhash.lean: every record the reader yields is "
         "in the new dictionary with its phrase, syllables, frequency and time (last record wins per key), the binary encoding of any "
         "store reads back exactly its live records, any lifetime is accepted (F26 fixed), the loader never changes the legacy files, "
         "a second start takes the current-file branch and yields the same map, and a phrase learned afterwards coexists with the "
         "migrated ones. Tie: real first start / second start / learn / restart on temp directories vs. the model, plus an oracle "
         "that compares against the generator's own record list and the legacy file bytes.",
    note="SQLite migration (v1->v2, sqlite->trie) is modelled abstractly only and not exercised.",
    technique="Lean 4 proof (induction over the record list, map lemmas, encoder/decoder round trip) + sampled model-implementation correspondence",
)
