"""C19 — legacy user data is migrated completely, exactly once, and never destroyed."""
from propslib import fn_scope

PROP = dict(
    extract=["bopomofo", "syllable", "sqlite_v1"],
    lean_targets=["Chewing.Props.C19"],
    runs=[dict(bin="legacy", timeout=900), dict(bin="legacysql", features=["sqlite"], timeout=900)],
    scope=fn_scope("loader start", "loader cstart", "loader learn", "loader encbin", "loader enctext", "loader sqlstart", "loader sqlv1"),
    level="proof",
    exhaustive=False,
    rule="one evaluation = one start-up (UserDictionaryLoader::load in-process, chewing_new2 in a child process) or one "
         "learn-and-close step on a temp directory, recomputed by the model from the exported pre-state (dictionary file contents "
         "+ legacy file bytes): generated valid binary/text stores (1-11 syllables, deleted and negative records, lifetimes across "
         "the u16 boundary), first start, second start, learning, restart; the legacy file is compared byte-for-byte afterwards; "
         "`loader encbin` = the Lean writer encodeBin / GRec.Valid / liveRecs against the generator's own encoder on every generated "
         "binary store; `loader enctext` = the Lean TEXT writer encodeText (decimal printing natToDigits / intToDigits) / "
         "GRec.TextValid / liveRecs against the generator's own text encoder (the grammar of tests/data/golden-uhash-text.dat), its "
         "independent notion of a record the text format can express and its live-record list, on every generated text store "
         "(lifetimes over the whole i64 range) and on a fixed set of stores holding an inexpressible record (blank / tab / CR / FF "
         "in the phrase, character count != syllable count, 0 or 12 syllables, a non-syllable code: `invalid` on both sides, the "
         "reader's behaviour on those bytes tied by the accompanying `loader start` record); `loader sqlstart` (feature sqlite) = first start over a directory holding only chewing.sqlite3 (generated "
         "current-schema stores written through SqliteDictionary, generated userphrase_v1-schema stores the loader migrates in-file, "
         "plus the repository's golden current-schema and v1-schema files), rows before/after and second start checked by the "
         "oracle; `loader sqlv1` = one generated userphrase_v1-schema store (written through rusqlite: records of 1-11 syllables with "
         "lengths 10 and 11 weighted, near-duplicate keys, zero phones before the end, zero / below-original / out-of-range "
         "numbers) opened by the real SqliteDictionary::open, the rows entries() yields recomputed by the relational model "
         "Model/SqliteV1.lean from the raw rows; oracle: every generated record present with all its syllables, phrase, user "
         "frequency and time and nothing else, userphrase_v1 identical to what the generator wrote after every open / start, no "
         "second migration on re-open (a frequency learned in between stays, userphrase_v2 does not grow), loader first start over "
         "the unmigrated copy = the records, second start unchanged. distinct = distinct record text",
    trusted_base=[
        "the new user dictionary is abstract (a key-sorted map); that closing it stores the map in chewing.dat and re-opening reads "
        "it back is C10/C11's subject — here it is observed on every record (file contents after close are part of the record)",
        "current-schema SQLite stores are abstract in the model (the rows SqliteDictionary::entries() yields); the in-file v1->v2 "
        "migration has a relational model (Model/SqliteV1.lean: which columns are read at which Rust type, the phone loop's range, "
        "which value feeds which column — all regenerated from src/dictionary/sqlite.rs by tools/extractors/sqlite.py — and the "
        "joined view as a key-sorted map); SQLite itself (storage, SQL engine, rowid scan order = insertion order for the legacy "
        "table, iteration order of the view) is trusted and observed on every sqlv1 record",
        "little-endian, 4-byte c_int platform for the binary format",
    ],
    assumptions=[
        "a valid v1 row = 1-11 non-zero 16-bit phones zero-padded to 11 columns, 32-bit frequencies with user_freq >= orig_freq "
        "(what the C library maintains), a non-negative time; a store holding any number the declared Rust type cannot hold "
        "(negative or > u32 frequency, negative time, phone outside u16) is rejected as a whole by SqliteDictionary::open "
        "(sqlite_v1_unreadable_rejected) and migrates nothing, like a malformed text file; with user_freq < orig_freq the "
        "joined view answers the larger one",
        "ValidLegacy = the file is the encoding (encodeBin of GRec.Valid records / encodeText of GRec.TextValid records with an i64 "
        "header) of records with pairwise distinct keys; GRec.TextValid = 1-11 syllable codes, valid UTF-8 phrase with exactly one "
        "character per syllable and no ASCII white-space byte (9, 10, 12, 13, 32), four 32-bit fields - the text format cannot express "
        "anything else (text_separator_refuted: the whole file is rejected; text_charcount_refuted: a DIFFERENT record is read) and "
        "has no removed mark / negative fields (only live records are written); a text file containing any malformed line (e.g. a "
        "negative number: text_negative_field_rejected) is rejected as a whole by the reader and migrates nothing",
    ],
)

MANIFEST = dict(
    text="Lean 4 theorems (Chewing/Props/C19.lean) over the model of UserDictionaryLoader::load on an abstract user directory "
         "{chewing.dat?, uhash.dat?, chewing.sqlite3?} with the legacy readers of Model/Uhash.lean: every record the reader yields is "
         "in the new dictionary with its phrase, syllables, frequency and time (last record wins per key) and nothing else is, the "
         "binary encoding of ANY store of valid records (1-11 syllables, removed and negative records interspersed, any lifetime) reads "
         "back exactly its live records (bin_reader_complete, migrate_bin_complete: proved by induction over the record list and "
         "list-slice lemmas), the TEXT file written for ANY store of text-valid records (1-11 syllables, one character per syllable, no "
         "ASCII white space in the phrase; removed and negative records are not written) with any i64 lifetime reads back exactly its "
         "live records (text_reader_complete, migrate_text_complete; also with CR LF line ends and trailing blanks: "
         "text_reader_complete_crlf_pad), resting on the decimal print/parse round trip in both directions (decimal_roundtrip, "
         "decimal_signed_roundtrip: parse(print n) = n iff n fits the type; leading zeros and '+' tolerated, '-' and blanks around the "
         "header rejected) and on characterisations of BufRead::lines and split_ascii_whitespace with general accumulators; any text "
         "lifetime is accepted (F26 fixed), the loader never changes the legacy files, "
         "a second start takes the current-file branch and yields the same map, and a phrase learned afterwards coexists with the "
         "migrated ones. Older SQLite schema (userphrase_v1): relational model Model/SqliteV1.lean of "
         "migrate_from_userphrase_v1 + the joined view entries() reads, with the SELECT list, phone-loop range, column types and INSERT "
         "parameter lists regenerated from the source; sqlite_v1_row_complete (every row with k <= 11 non-zero phones is read as exactly "
         "its k syllables, phrase, frequencies, time), sqlite_v1_rows_complete (a store of well-formed records with distinct keys "
         "migrates to a view holding every record under its full key and nothing else), sqlite_v1_last_wins, sqlite_v1_first_start "
         "(chained with the loader), sqlite_v1_unreadable_rejected, sqlite_v1_hole_skipped. Tie: real first start / second start / learn / restart on temp directories vs. the model, plus an oracle "
         "that compares against the generator's own record list and the legacy file bytes.",
    note="The text-format round trip is proved for exactly the records the format can express (GRec.TextValid) and the writer "
         "grammar of golden-uhash-text.dat (blank-separated columns, LF or CR LF, optional trailing blanks); TextValid excludes: a "
         "phrase with an ASCII white-space byte, a phrase whose character count differs from the syllable count, 0 or > 11 syllables, "
         "non-syllable codes - the unrestricted statement is refuted (text_reader_complete_full_refuted) with concrete witnesses. NOT "
         "proved: the converse for every inexpressible record (two witnesses only); text files laid out differently (tab separators, "
         "extra columns, '+'/leading zeros) are accepted by the reader model and covered by correspondence only; the writer model is "
         "tied to the harness encoder byte for byte (loader enctext), the legacy C writer itself is not in the repository. SQLite itself (storage, SQL engine, iteration orders) is trusted; the v1->v2 migration is "
         "modelled relationally and tied by sqlv1 records on generated v1 stores, the current-schema store is abstract (its rows are "
         "what entries() yields) and covered by correspondence + oracle on generated stores; the golden files are an extra.",
    technique="Lean 4 proof (induction over the record list, map lemmas, binary and text encoder/decoder round trips, decimal print/parse) + sampled model-implementation correspondence",
)
