"""C19 — legacy user data is migrated completely, exactly once, and never destroyed."""
from propslib import fn_scope

PROP = dict(
    extract=["bopomofo", "syllable"],
    lean_targets=["Chewing.Props.C19"],
    runs=[dict(bin="legacy", timeout=900), dict(bin="legacysql", features=["sqlite"], timeout=900)],
    scope=fn_scope("loader start", "loader cstart", "loader learn", "loader encbin", "loader sqlstart"),
    level="proof",
    exhaustive=False,
    rule="one evaluation = one start-up (UserDictionaryLoader::load in-process, chewing_new2 in a child process) or one "
         "learn-and-close step on a temp directory, recomputed by the model from the exported pre-state (dictionary file contents "
         "+ legacy file bytes): generated valid binary/text stores (1-11 syllables, deleted and negative records, lifetimes across "
         "the u16 boundary), first start, second start, learning, restart; the legacy file is compared byte-for-byte afterwards; "
         "`loader encbin` = the Lean writer encodeBin / GRec.Valid / liveRecs against the generator's own encoder on every generated "
         "binary store; `loader sqlstart` (feature sqlite) = first start over a directory holding only chewing.sqlite3 (generated "
         "current-schema stores written through SqliteDictionary, plus the repository's golden current-schema and v1-schema files), "
         "rows before/after and second start checked by the oracle. distinct = distinct record text",
    trusted_base=[
        "the new user dictionary is abstract (a key-sorted map); that closing it stores the map in chewing.dat and re-opening reads "
        "it back is C10/C11's subject — here it is observed on every record (file contents after close are part of the record)",
        "SQLite stores are abstract in the model (the rows SqliteDictionary::entries() yields, after its in-file v1->v2 migration): "
        "the SQL itself (join of dictionary_v1/userphrase_v2, migrate_from_userphrase_v1) is NOT modelled here (C09's subject); the v1 "
        "path is exercised on the repository's single golden v1 file only",
        "little-endian, 4-byte c_int platform for the binary format",
    ],
    assumptions=[
        "ValidLegacy = the file is the encoding (encodeBin / a well-formed text file) of records with pairwise distinct keys; "
        "a text file containing any malformed line (e.g. a negative number) is rejected as a whole by the reader and migrates nothing",
    ],
)

MANIFEST = dict(
    text="Lean 4 theorems (Chewing/Props/C19.lean) over the model of UserDictionaryLoader::load on an abstract user directory "
         "{chewing.dat?, uhash.dat?, chewing.sqlite3?} with the legacy readers of Model/Uhash.lean: every record the reader yields is "
         "in the new dictionary with its phrase, syllables, frequency and time (last record wins per key) and nothing else is, the "
         "binary encoding of ANY store of valid records (1-11 syllables, removed and negative records interspersed, any lifetime) reads "
         "back exactly its live records (bin_reader_complete, migrate_bin_complete: proved by induction over the record list and "
         "list-slice lemmas), any text lifetime is accepted (F26 fixed), the loader never changes the legacy files, "
         "a second start takes the current-file branch and yields the same map, and a phrase learned afterwards coexists with the "
         "migrated ones. Tie: real first start / second start / learn / restart on temp directories vs. the model, plus an oracle "
         "that compares against the generator's own record list and the legacy file bytes.",
    note="NOT proved: the text-format round trip (decimal print/parse) - the text reader is tied by correspondence and the oracle "
         "compares with the generator's record list; SQLite (sqlite->trie, v1->v2) is abstract in the model and covered by "
         "correspondence + oracle on generated current-schema stores and the golden v1 file.",
    technique="Lean 4 proof (induction over the record list, map lemmas, encoder/decoder round trip) + sampled model-implementation correspondence",
)
