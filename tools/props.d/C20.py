"""C20 — check configuration (see tools/props.py for the keys)."""
from propslib import comp_scope

PROP = dict(
    extract=["bopomofo", "syllable", "cli"],
    lean_targets=["Chewing.Props.C20"],
    # the `cli` driver builds the REAL chewing-cli binary from $VERIF_REPO itself (cargo, offline, own target dir
    # under harness/target/cli-build) and spawns it; `sqlite` gives the harness the library's SQLite reader for lookups
    runs=[dict(bin="cli", features=["sqlite"], timeout=1500, timeout_thorough=7200)],
    scope=comp_scope("cli"),
    level="proof",
    exhaustive=False,
    rule="one evaluation = one invocation group of the real chewing-cli binary (init-database, then dump and dump --csv of "
         "the result; or a library lookup of one key in the built file; or char::is_whitespace over all code points) whose "
         "exit status, reported line numbers, output-file existence and complete dump texts the model recomputes from the "
         "source text; sources: fixed witnesses, byte sources with invalid UTF-8, the repository's tests/data/*.src, seeded generated sources (quoted fields, "
         "repeated delimiters, comments, duplicates, homophones, prefix keys, CRLF, no final newline, non-BMP text, u32 "
         "limits) x all 8 configurations (2 back ends x keep x skip) in the source's format, every dump compiled again in "
         "its own format, and ~35 single-line corruptions per line (all lines of the first sources, sampled for the rest) "
         "x skip/no-skip. distinct = distinct record text",
    trusted_base=["kernel evaluation (`decide`) of small concrete witnesses and of one 42-row table fact; no native_decide",
                  "`chewing-cli info` (metadata given with -n/-c/-l/-r is reported by both back ends, text and JSON) is checked by "
                  "the oracle only, not modelled",
                  "clap argument parsing, process plumbing and file I/O of the tool (driven with valid flags)",
                  "SQLite (C09) is abstracted to rows: INSERT OR REPLACE, enumeration order and lookup order are modelled and compared with "
                  "the real files on every run, not derived from bytes. The TRIE back end is derived from C11's byte-level model (section 6 "
                  "of Props/C20.lean, Proofs/CliTrieLink.lean): insert semantics, lookup order, the set of enumerated records and no 16-bit "
                  "overflow are theorems (trie_backend_linked), and so is the ORDER in which Trie::entries visits the keys (trieOrder: depth first, "
                  "each chain of nested keys deepest first): dump_order_linked (section 7, Proofs/CliTrieOrder.lean) from C11's entries_order — "
                  "the real reader's enumeration of the written bytes EQUALS the model's entries .trie as a list",
                  "slice::sort_by is only assumed to be SOME stable sort: leaf_sort_stable_unique - on Rust strings the comparator "
                  "(regenerated arm Gen.trieMixedCmp = the total preorder of trie fix ddfe893, identified with C11's phraseLt through "
                  "Utf8Order.lexLt_utf8Enc: UTF-8 preserves order) is a total preorder, so every sorted + stable arrangement of a leaf, mixed "
                  "leaves included, is the model's phraseSort (leaf_sort_single / leaf_sort_multi_unique are the earlier special cases); "
                  "leaf_sort_is_C11: phraseSort = C11's sortLeaf"],
    assumptions=["text is modelled as a list of code points; sources are bytes only at the entrance (readRawLines / compileRaw: "
                 "strict UTF-8 decoding per line), where a line that is not valid UTF-8 is a malformed line like any other (F45, fixed)",
                 "FIXED in the repository (six fix: commits in tools/src/init_database.rs, shipped sources compile to byte-identical files): "
                 "F27 no-syllables, empty-phrase, word-freq-unchecked, phrase-whitespace (rejected, not trimmed), length-mismatch, and F45 "
                 "invalid-utf8 - the statements they refuted (MalformedFull, SkipInvalidFull) are theorems now and the harness oracle has "
                 "no class for them any more (a recurrence is `new`)",
                 "known findings left (design, not the compiler's line checking): F18-tone1 (a first-tone mark does not survive the dump; "
                 "C13's finding) and F34-sqlite-order (SQLite candidate order of one-syllable keys changes when the dump is compiled "
                 "again) — each refuted with a witness and excluded by an explicit hypothesis in the partial theorem",
                 "other I/O errors of the read loop (not InvalidData) still end the run; file I/O is trusted"],
)

MANIFEST = dict(
    text="Lean 4 theorems (Chewing/Props/C20.lean) over an executable model of tools/src/{init_database,dump}.rs (parse_line, "
         "BufRead::lines, the compile loop with CSV header skip / error collection / --skip-invalid, both dump formats; literal "
         "constants and the one comparator arm a pending trie fix rewrites are regenerated from the source) and of both builders "
         "at entry-list level. THEOREMS: wellformed_source_roundtrip (every file of well-formed free-style lines - quotes around "
         "phrase / frequency / the syllable part, repeated delimiters, any comma/whitespace between syllables, # comments, "
         "duplicates, LF/CRLF/no final newline, CSV header - both back ends, all flags: compiles with nothing reported, the dump "
         "lists exactly the last record per (syllables, phrase) with one-character frequencies zeroed unless kept, the dump text "
         "compiles again to the same entries in the same order and dumps to the same text, lookups agree); parse_dump / "
         "parse_source_line(_quoted) per line; dump_compile_roundtrip for everything the compiler accepts whose entries are "
         "well-formed records; recompiled_lookup_iff (lookup order survives exactly outside class F34Changes = SQLite, "
         "one-syllable key, candidates not in ascending text order) with recompiled_lookup_sqlite_single (what the recompiled "
         "SQLite file answers); malformed_full (FULL strength since the fixes of F27: every line outside the documented "
         "format - phrase non-empty without comma/whitespace, u32 frequency, at least one syllable, one syllable per character - is "
         "rejected, for every delimiter, with or without --keep-word-freq) with malformed_reported / malformed_reported_full / reported_iff "
         "(exactly the rejected lines are reported, with their 1-based numbers; nothing is built unless --skip-invalid) / "
         "skip_invalid_keeps_valid; accepted_iff + rejected_cause (exactly which lines parse_line accepts, and what each of the nine "
         "causes means); on files as BYTES (fix of F45): skip_invalid_full (FULL strength: --skip-invalid always builds, from exactly the "
         "valid lines), invalid_utf8_reported / malformed_reported_bytes (a line that is not valid UTF-8 or not in the documented format is "
         "reported with its number), raw_reported_iff, raw_run_is_text_run. dump_compile_roundtrip_source now needs ONE hypothesis (no "
         "first-tone mark in the source). REFUTED on the unchanged code, with witness + partial theorem each: RoundTripFull (F18: a "
         "first-tone mark is not dumped), RecompiledLookupFull (F34). FIXED by six fix: commits (3149ea9 no-syllables, 9f78db5 empty-phrase, "
         "38ee0e4 word-freq-unchecked, 76e3e3a invalid-utf8, fd01973 phrase-whitespace, 7df7fb4 length-mismatch): f27_witnesses_rejected "
         "keeps the former witnesses as theorems about the repaired parser. CORRESPONDENCE: the REAL chewing-cli binary built from the tree is run on fixed, repository and generated "
         "sources and on ~35 single-line corruptions per line; exit status, reported line numbers, output existence, complete "
         "dump texts and library lookups (original and recompiled file) are recomputed by the model; the harness oracle "
         "evaluates the property statement directly and classifies every failure exactly (known class or new).",
    note="Trusted: Lean kernel (axioms propext, Classical.choice, Quot.sound only), tools/extract.py, the harness and the "
         "compiled model driver; clap, process plumbing, `info` metadata pass-through (oracle only). TRIE storage layer: the "
         "four things the entry-list model assumes of the trie file are now connected to C11's byte-level theorems (Props/C20.lean section 6): "
         "(a) insert = replace same (key, phrase text) in place else append - THEOREM lookup_trieBuild from C11.builder_is_map / insert_semantics; "
         "(c) lookup = the leaf stably sorted by the write() comparator - THEOREM trie_backend_linked (real reader's lookup_all_phrases of the "
         "written bytes = dictLookup .trie, same order) from C11.lookup_correct + leaf_sort_is_C11; (d) no 16-bit length overflow - THEOREM "
         "(C11.writes_within_limits: inside Fits write succeeds, outside it returns Err, never truncates); (b) entries(): the SET of enumerated "
         "records (each last record per (syllables, phrase) once) is a THEOREM from C11.entries_correct, and the ORDER of the keys (depth-first, "
         "nested keys deepest first = trieOrder) is a THEOREM as well since C11 proves entries_order: dump_order_linked (Props/C20.lean section 7: "
         "the list the real entries() yields on the written bytes = entries .trie rs, hence both dump formats print the model's lines in the "
         "model's order), recompiled_entries_trie_linked (the file compiled from the dump enumerates the same list); the harness oracle "
         "checks the key order of every trie dump independently (generator_stats trie_dump_order_checked). "
         "recompiled_lookup_trie_linked / wellformed_source_roundtrip_linked restate the round trip for the two CONCRETE byte files (hypotheses: "
         "records valid for the Rust types, both writes returned Ok). SQLite: INSERT OR REPLACE, primary-key enumeration and ORDER BY sort_id, "
         "freq DESC, phrase DESC remain modelled at row level and validated by correspondence on every run (C09's relational reading).",
    technique="Lean 4 proof (induction over lines / entry lists, sorted-permutation uniqueness, stable-sort idempotence for an "
              "asymmetric comparator, kernel-evaluated witnesses) over a translator-regenerated model; sampled "
              "model/implementation correspondence through the real command-line binary",
)
