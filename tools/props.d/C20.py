"""C20 — check configuration (see tools/props.py for the keys)."""
from propslib import comp_scope

PROP = dict(
    extract=["bopomofo", "syllable", "cli"],
    lean_targets=["Chewing.Props.C20"],
    # the `cli` driver builds the REAL chewing-cli binary from $VERIF_REPO itself (cargo, offline, own target dir
    # under harness/target/cli-build) and spawns it; `sqlite` gives the harness the library's SQLite reader for lookups
    runs=[dict(bin="cli", features=["sqlite"], timeout=1500, timeout_thorough=7200)],
    scope=comp_scope("cli"),
    level="proof",
    exhaustive=False,
    rule="one evaluation = one invocation group of the real chewing-cli binary (init-database, then dump and dump --csv of "
         "the result; or a library lookup of one key in the built file; or char::is_whitespace over all code points) whose "
         "exit status, reported line numbers, output-file existence and complete dump texts the model recomputes from the "
         "source text; sources: fixed witnesses, the repository's tests/data/*.src, seeded generated sources (quoted fields, "
         "repeated delimiters, comments, duplicates, homophones, prefix keys, CRLF, no final newline, non-BMP text, u32 "
         "limits) x all 8 configurations (2 back ends x keep x skip) in the source's format, every dump compiled again in "
         "its own format, and ~30 single-line corruptions per line (all lines of the first sources, sampled for the rest) "
         "x skip/no-skip. distinct = distinct record text",
    trusted_base=["kernel evaluation (`decide`) of small concrete witnesses and of one 42-row table fact; no native_decide",
                  "clap argument parsing, process plumbing and file I/O of the tool (driven with valid flags)",
                  "the trie file format (C11) and SQLite (C09) are abstracted to entry lists: insert semantics, enumeration "
                  "order and lookup order are modelled and compared with the real files on every run, not derived from bytes",
                  "slice::sort_by is a stable sort; on comparators that are not a total order (leaves mixing one-character "
                  "and longer phrases) the model is the insertion sort std uses for <= 20 elements"],
    assumptions=["text is modelled as a list of code points; only valid UTF-8 sources are generated",
                 "known findings: F27 (no-syllables, length-mismatch, empty-phrase, word-freq-unchecked: malformed lines the "
                 "parser accepts), F18-tone1 (a first-tone mark does not survive the dump), F34-sqlite-order (SQLite candidate "
                 "order of one-syllable keys changes when the dump is compiled again) — each refuted with a witness and "
                 "excluded by an explicit hypothesis in the partial theorem"],
)

MANIFEST = dict(
    text="Lean 4 theorems (Chewing/Props/C20.lean) over an executable model of tools/src/{init_database,dump}.rs (parse_line, "
         "the compile loop with CSV header skip / error collection / --skip-invalid, both dump formats; constants regenerated "
         "from the source) and of both builders at entry-list level: parse_dump (every well-formed record, both delimiters, "
         "one-character frequency rule), dump_lists_last_records (both back ends enumerate exactly the last record per "
         "(syllables, phrase)), dump_compile_roundtrip (dump -> compile -> entries equal including order, trie and SQLite, "
         "by induction over entry lists with sort idempotence / permutation invariance), recompiled_lookup_trie, "
         "malformed_reported / reported_iff / skip_invalid_keeps_valid. Tie: translator + correspondence through the REAL "
         "chewing-cli binary built from the tree (exit status, reported line numbers, output existence, full dump texts, "
         "library lookups), whose harness oracle evaluates the statement directly. Known findings F27 / F18 / F34 are proved "
         "as refutations and excluded by hypothesis.",
    note="Trusted: Lean kernel (axioms propext, Classical.choice, Quot.sound only), tools/extract.py, the harness and the "
         "compiled model driver; clap and process plumbing; the trie and SQLite storage layers are modelled at the level of "
         "entry lists and validated by correspondence (their byte-level behaviour belongs to C11 / C09).",
    technique="Lean 4 proof (induction over lines / entry lists, sorted-permutation uniqueness, kernel-evaluated witnesses) over a "
              "translator-regenerated model; sampled model/implementation correspondence through the real command-line binary",
)
