"""Registry of the per-property check configurations.

Each tools/props.d/<Cxx>.py defines

  PROP = dict(
    extract=[…],            # translator extractors the property's theorems depend on
    lean_targets=[…],       # lake targets that must build (the Props module)
    runs=[dict(bin=…, args=[…], args_thorough=[…], tag=…, features=[…], timeout=…, env={…}), …],
    scope=lambda comp, fn: bool,   # transcript records whose model behaviour the theorems use
    level="proof", exhaustive=bool, rule="…", trusted_base=[…], assumptions=[…],
  )
  MANIFEST = dict(text=…, note=…, technique=…, category="proof")

and may define NOT_YET = "reason" instead of PROP when the property is not claimed.
"""
import glob, importlib.util, os, sys

HERE = os.path.dirname(os.path.abspath(__file__))
sys.path.insert(0, HERE)

PROPS, MANIFEST_TEXT, NOT_YET = {}, {}, {}
for path in sorted(glob.glob(os.path.join(HERE, "props.d", "C*.py"))):
    pid = os.path.basename(path)[:-3]
    spec = importlib.util.spec_from_file_location("props_" + pid, path)
    mod = importlib.util.module_from_spec(spec)
    spec.loader.exec_module(mod)
    if hasattr(mod, "PROP"):
        PROPS[pid] = mod.PROP
        MANIFEST_TEXT[pid] = mod.MANIFEST
    elif hasattr(mod, "NOT_YET"):
        NOT_YET[pid] = mod.NOT_YET
