"""Helpers for tools/props.d/*.py"""


def comp_scope(*comps):
    """scope predicate: transcript records whose component tag is one of `comps`"""
    s = set(comps)
    return lambda comp, fn: comp in s


def fn_scope(*pairs):
    """scope predicate: records whose (component, fn) is listed, e.g. fn_scope("ed key", "ed select")"""
    s = set(pairs)
    return lambda comp, fn: (comp + " " + fn) in s
