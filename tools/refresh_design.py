#!/usr/bin/env python3
"""Refreshes the generated tables of DESIGN.md (between <!-- BEGIN x --> / <!-- END x --> markers)."""
import os, re, subprocess, sys
ROOT = os.path.normpath(os.path.join(os.path.dirname(os.path.abspath(__file__)), ".."))
p = os.path.join(ROOT, "DESIGN.md")
s = open(p, encoding="utf-8").read()
for tag, tool in (("asbuilt", "asbuilt_table.py"), ("seeded", "seeded_table.py")):
    out = subprocess.run([sys.executable, os.path.join(ROOT, "tools", tool)], capture_output=True, text=True).stdout.strip()
    s, n = re.subn(r"(<!-- BEGIN %s -->\n).*?(<!-- END %s -->)" % (tag, tag), lambda m: m.group(1) + out + "\n" + m.group(2), s, flags=re.S)
    print(tag, "refreshed" if n else "MARKER NOT FOUND")
open(p, "w", encoding="utf-8").write(s)
