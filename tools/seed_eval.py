#!/usr/bin/env python3
"""Developer tool (not a registered check): confirm a seeded change produced by an independent
sub-agent and record it under /verif/seeded/.

    tools/seed_eval.py <worktree> <SEEDED-dir> <name> <Cxx> [<Cyy> …]

<worktree>   scratch git worktree of /repo (outside /repo and /verif) the sub-agent worked in
<SEEDED-dir> directory holding patch.diff, the demonstration file(s), demo_cmd.txt, meta.json
<name>       directory name under /verif/seeded/ (e.g. C16-kbtype-colemak)

Steps (all in the scratch worktree, which is reset first):
  1. unchanged tree + demo            -> demo must PASS
  2. patch applied, demo absent       -> pinned suite (cargo test --workspace) must PASS
  3. patch applied + demo             -> demo must FAIL
then the patch is applied to /repo, the named checks are run (tools/try_mutant.py), /repo is restored.
Writes /verif/seeded/<name>/{patch.diff, <demo>, demo_cmd.txt, meta.json}.
"""
import json, os, shutil, subprocess, sys, time

ROOT = os.path.normpath(os.path.join(os.path.dirname(os.path.abspath(__file__)), ".."))


def sh(cmd, cwd, timeout=3600):
    p = subprocess.run(cmd, cwd=cwd, shell=True, capture_output=True, text=True, timeout=timeout)
    return p.returncode, p.stdout + p.stderr


def counts(out):
    ok = sum(int(l.split(" passed")[0].split()[-1]) for l in out.splitlines() if l.startswith("test result"))
    bad = sum(int(l.split(" failed")[0].split()[-1]) for l in out.splitlines() if l.startswith("test result"))
    return ok, bad


def main():
    wt, sd, name, props = sys.argv[1], os.path.abspath(sys.argv[2]), sys.argv[3], sys.argv[4:]
    meta = json.load(open(os.path.join(sd, "meta.json")))
    demo_cmd = open(os.path.join(sd, "demo_cmd.txt")).read().strip().splitlines()[-1].strip()
    demos = [f for f in os.listdir(sd) if f.endswith(".rs") or f.endswith(".c") or f.endswith(".py")]
    demo_rel = meta.get("demo_file")
    if not demo_rel:
        demo_rel = ("capi/tests/" if "chewing_capi" in demo_cmd or "-p chewing_capi" in demo_cmd else "tests/") + demos[0]
    ran = []

    def reset():
        sh("git checkout -- . && git clean -fdq -e target -e 'SEEDED*'", wt)

    def put_demo():
        os.makedirs(os.path.dirname(os.path.join(wt, demo_rel)), exist_ok=True)
        shutil.copy(os.path.join(sd, os.path.basename(demo_rel)), os.path.join(wt, demo_rel))

    reset()
    put_demo()
    rc1, out1 = sh(demo_cmd + " 2>&1", wt)
    ran.append(f"unchanged tree: `{demo_cmd}` rc={rc1} {counts(out1)}")
    reset()
    rc, out = sh(f"git apply {sd}/patch.diff", wt)
    assert rc == 0, out
    rc2, out2 = sh("cargo test --workspace --no-fail-fast --offline -j8 2>&1", wt)
    ok2, bad2 = counts(out2)
    ran.append(f"patch applied: `cargo test --workspace --no-fail-fast --offline` rc={rc2} passed={ok2} failed={bad2}")
    put_demo()
    rc3, out3 = sh(demo_cmd + " 2>&1", wt)
    ran.append(f"patch applied: `{demo_cmd}` rc={rc3} {counts(out3)}")
    reset()
    confirmed = rc1 == 0 and rc2 == 0 and bad2 == 0 and rc3 != 0
    print("\n".join(ran))
    print("CONFIRMED" if confirmed else "NOT CONFIRMED")
    if not confirmed:
        print(out1[-1500:] if rc1 else "", out2[-1500:] if rc2 else "", out3[-800:] if rc3 == 0 else "")
        return 1
    dst = os.path.join(ROOT, "seeded", name)
    os.makedirs(dst, exist_ok=True)
    shutil.copy(os.path.join(sd, "patch.diff"), dst)
    shutil.copy(os.path.join(sd, os.path.basename(demo_rel)), dst)
    open(os.path.join(dst, "demo_cmd.txt"), "w").write(f"# copy {os.path.basename(demo_rel)} to {demo_rel} in a checkout of the repository, then:\n{demo_cmd}\n")
    rc, out = sh(f"{sys.executable} {ROOT}/tools/try_mutant.py {dst}/patch.diff {' '.join(props)} --no-suite", ROOT, timeout=7200)
    print(out[-3000:])
    res = json.loads(out.strip().splitlines()[-1])
    det = {}
    for p, r in res["props"].items():
        det[p] = {"detected": bool(r["violation"]), "line": (r["violation"] or [None])[0],
                  "first_failure": r.get("first_failure"), "seconds": r["s"]}
    meta_out = {
        "property": meta.get("property"), "summary": meta.get("summary"),
        "needs_to_manifest": meta.get("needs_to_manifest"), "files_changed": meta.get("files_changed"),
        "demo_file": demo_rel, "origin": "independent sub-agent given only the property text and a scratch worktree",
        "confirmed_by_me": ran, "confirmed_at": time.strftime("%Y-%m-%dT%H:%M:%SZ", time.gmtime()),
        "checks_run_against_it": det,
    }
    json.dump(meta_out, open(os.path.join(dst, "meta.json"), "w"), indent=1, ensure_ascii=False)
    print(json.dumps(det, indent=1, ensure_ascii=False)[:2000])
    return 0


if __name__ == "__main__":
    sys.exit(main())
