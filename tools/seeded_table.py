#!/usr/bin/env python3
"""Prints the markdown table of DESIGN.md §10.1 from seeded/*/meta.json (which check caught which seeded change)."""
import glob, json, os
ROOT = os.path.normpath(os.path.join(os.path.dirname(os.path.abspath(__file__)), ".."))
print("| seeded change | property | needs, to manifest | caught by when recorded (first failing input reported) | missed by when recorded | re-run on the final tree |")
print("|---|---|---|---|---|---|")
for f in sorted(glob.glob(os.path.join(ROOT, "seeded", "*", "meta.json"))):
    m = json.load(open(f))
    name = os.path.basename(os.path.dirname(f))
    caught, missed = [], []
    for p, r in (m.get("checks_run_against_it") or {}).items():
        if r.get("detected"):
            tag = " (no-failing-input-found)" if (r.get("line") or "").endswith("no-failing-input-found") else ""
            ff = (r.get("first_failure") or "").split(" :: ")[0][:110].replace("|", "/")
            caught.append(f"{p}{tag}: {ff}")
        else:
            missed.append(p)
    note = " **note:** " + m["note"][:220].replace("|", "/") + "…" if m.get("note") else ""
    needs = (m.get("needs_to_manifest") or "")[:160].replace("|", "/").replace("\n", " ")
    rc = m.get("recheck") or {}
    if not rc:
        re_s = "—"
    elif not rc.get("applies", True):
        re_s = f"patch no longer applies at {rc.get('repo_commit')} (code rewritten by a later fix)"
    else:
        re_s = ", ".join(f"{p}: {'VIOLATION' + (' (no-failing-input-found)' if (r.get('line') or '').endswith('found') else '') if r.get('detected') else 'silent'}" for p, r in rc.get("checks", {}).items()) + f" @{rc.get('repo_commit')}"
    print(f"| `{name}` | {m.get('property')} | {needs}{note} | {'<br>'.join(caught) or '—'} | {', '.join(missed) or '—'} | {re_s} |")
