#!/usr/bin/env python3
"""Prints the markdown table of DESIGN.md §10.1 from seeded/*/meta.json (which check caught which seeded change)."""
import glob, json, os
ROOT = os.path.normpath(os.path.join(os.path.dirname(os.path.abspath(__file__)), ".."))
print("| seeded change | property | needs, to manifest | caught by (first failing input reported) | missed by |")
print("|---|---|---|---|---|")
for f in sorted(glob.glob(os.path.join(ROOT, "seeded", "*", "meta.json"))):
    m = json.load(open(f))
    name = os.path.basename(os.path.dirname(f))
    caught, missed = [], []
    for p, r in (m.get("checks_run_against_it") or {}).items():
        if r.get("detected"):
            tag = " (no-failing-input-found)" if (r.get("line") or "").endswith("no-failing-input-found") else ""
            ff = (r.get("first_failure") or "").split(" :: ")[0][:110].replace("|", "/")
            caught.append(f"{p}{tag}: {ff}")
        else:
            missed.append(p)
    note = " **note:** " + m["note"][:220].replace("|", "/") + "…" if m.get("note") else ""
    needs = (m.get("needs_to_manifest") or "")[:160].replace("|", "/").replace("\n", " ")
    print(f"| `{name}` | {m.get('property')} | {needs}{note} | {'<br>'.join(caught) or '—'} | {', '.join(missed) or '—'} |")
