#!/usr/bin/env python3
"""Developer tool (not a registered check): re-run the whole seeded corpus against the CURRENT /repo and /verif.

    tools/selftest_seeded.py [name-prefix …]

For every seeded/<name>/ the patch is applied to /repo (git apply, falling back to --3way), the checks that
detected it when it was recorded are run (quick tier), /repo is restored.  The result is stored in
seeded/<name>/meta.json under "recheck" (commit of /repo, per check: detected / line) and summarised on stdout.
"""
import json, os, subprocess, sys, time
ROOT = os.path.normpath(os.path.join(os.path.dirname(os.path.abspath(__file__)), ".."))
REPO = os.environ.get("VERIF_REPO", "/repo")


def sh(cmd, cwd, timeout=3600):
    p = subprocess.run(cmd, cwd=cwd, shell=isinstance(cmd, str), capture_output=True, text=True, timeout=timeout)
    return p.returncode, p.stdout + p.stderr


def main():
    pref = sys.argv[1:]
    names = sorted(d for d in os.listdir(os.path.join(ROOT, "seeded")) if os.path.isdir(os.path.join(ROOT, "seeded", d)))
    if pref:
        names = [n for n in names if any(n.startswith(p) for p in pref)]
    rc, out = sh("git status --porcelain", REPO)
    if out.strip():
        print("refusing: /repo is not clean")
        return 2
    head = sh("git log -1 --format=%h", REPO)[1].strip()
    tally = {"detected": 0, "missed": 0, "inapplicable": 0, "retired": 0}
    for n in names:
        d = os.path.join(ROOT, "seeded", n)
        meta = json.load(open(os.path.join(d, "meta.json")))
        if meta.get("note", "").find("harmless") >= 0 or meta.get("note", "").find("no longer manifests") >= 0:
            retired = True
        else:
            retired = False
        checks = [p for p, r in (meta.get("checks_run_against_it") or {}).items() if r.get("detected")]
        if meta.get("property") and meta["property"] not in checks:
            checks = [meta["property"]] + checks          # the owning check is always run
        rc, out = sh(["git", "apply", os.path.join(d, "patch.diff")], REPO)
        if rc:
            rc, out = sh(["git", "apply", "--3way", os.path.join(d, "patch.diff")], REPO)
            sh("git reset -q", REPO)
        res = {"repo_commit": head, "at": time.strftime("%Y-%m-%dT%H:%M:%SZ", time.gmtime()), "checks": {}}
        if rc:
            sh("git checkout -- . && git clean -fdq -e target", REPO)
            res["applies"] = False
            tally["inapplicable"] += 1
            print(f"{n}: patch no longer applies to {head} (the code it touched was changed by a later fix)")
        else:
            res["applies"] = True
            try:
                any_det = False
                for p in checks:
                    rc2, out2 = sh([os.path.join(ROOT, "check"), p, "--tier", "quick"], ROOT)
                    viol = [l for l in out2.splitlines() if l.startswith("VIOLATION")]
                    res["checks"][p] = {"detected": bool(viol), "line": (viol or [None])[0]}
                    any_det = any_det or bool(viol)
                key = "retired" if retired else ("detected" if any_det else "missed")
                tally[key] += 1
                print(f"{n}: " + ", ".join(f"{p}={'VIOLATION' + (' (no-failing-input-found)' if (r['line'] or '').endswith('found') else '') if r['detected'] else 'not detected'}" for p, r in res["checks"].items()) + (" [retired: see note]" if retired else ""))
            finally:
                sh("git checkout -- . && git clean -fdq -e target", REPO)
        meta["recheck"] = res
        json.dump(meta, open(os.path.join(d, "meta.json"), "w"), indent=1, ensure_ascii=False)
        sys.stdout.flush()
    sh([sys.executable, os.path.join(ROOT, "tools", "extract.py")], ROOT)
    print("TALLY", json.dumps(tally), "at /repo", head)
    return 0


if __name__ == "__main__":
    sys.exit(main())
