#!/usr/bin/env python3
"""Developer tool (not a registered check): apply a seeded change to /repo, run the pinned suite and
the named checks against it, undo the change, regenerate the tables.

    tools/try_mutant.py <patch.diff> <Cxx> [<Cyy> …] [--no-suite] [--tier quick|thorough]

Prints one line per check: the VIOLATION line (or `NOT DETECTED`) and writes a JSON summary to stdout
at the end.  /repo must be clean before; it is clean afterwards (`git checkout -- .`, untracked files
created by the patch are removed).
"""
import json, os, subprocess, sys, time

REPO = os.environ.get("VERIF_REPO", "/repo")
ROOT = os.path.normpath(os.path.join(os.path.dirname(os.path.abspath(__file__)), ".."))


def sh(cmd, cwd=None, timeout=3600):
    p = subprocess.run(cmd, cwd=cwd, shell=isinstance(cmd, str), capture_output=True, text=True, timeout=timeout)
    return p.returncode, p.stdout + p.stderr


def main():
    args = [a for a in sys.argv[1:] if not a.startswith("--")]
    patch, props = os.path.abspath(args[0]), args[1:]
    suite = "--no-suite" not in sys.argv
    tier = "quick"
    if "--tier" in sys.argv:
        tier = sys.argv[sys.argv.index("--tier") + 1]
    rc, out = sh("git status --porcelain", cwd=REPO)
    if out.strip():
        print("refusing: /repo is not clean:\n" + out)
        return 2
    res = {"patch": patch, "props": {}, "suite": None}
    rc, out = sh(["git", "apply", patch], cwd=REPO)
    if rc:
        rc, out = sh(["git", "apply", "--3way", patch], cwd=REPO)
        sh(["git", "reset", "-q"], cwd=REPO)
    if rc:
        print("patch does not apply:\n" + out)
        return 2
    try:
        if suite:
            t0 = time.time()
            rc, out = sh("cargo test --workspace --no-fail-fast --offline 2>&1 | grep -E '^test result|FAILED|panicked' ", cwd=REPO)
            passed = sum(int(l.split(" passed")[0].split()[-1]) for l in out.splitlines() if l.startswith("test result"))
            failed = sum(int(l.split(" failed")[0].split()[-1]) for l in out.splitlines() if l.startswith("test result"))
            res["suite"] = {"passed": passed, "failed": failed, "s": round(time.time() - t0)}
            print(f"suite with the change: {passed} passed, {failed} failed")
        for p in props:
            t0 = time.time()
            rc, out = sh([os.path.join(ROOT, "check"), p, "--tier", tier], cwd=ROOT)
            viol = [l for l in out.splitlines() if l.startswith("VIOLATION")]
            last = out.strip().splitlines()[-1] if out.strip() else ""
            res["props"][p] = {"rc": rc, "violation": viol, "summary": last, "s": round(time.time() - t0)}
            print(f"{p}: rc={rc} " + (viol[0] if viol else "NOT DETECTED") + f"   [{last}]")
            for v in viol:
                rp = v.split("replay=")[1].split()[0]
                try:
                    j = json.load(open(rp))
                    det = (j.get("failures") or [{}])[0].get("detail") or "; ".join(j.get("no_longer_checks", []))
                    print("    " + det[:300])
                    res["props"][p]["first_failure"] = det[:1000]
                except Exception:
                    pass
    finally:
        sh("git checkout -- . && git clean -fdq -e target", cwd=REPO)
        sh([sys.executable, os.path.join(ROOT, "tools", "extract.py")])
    print(json.dumps(res))
    return 0


if __name__ == "__main__":
    sys.exit(main())
