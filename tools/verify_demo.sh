#!/bin/sh
# verify_demo.sh <patch.diff> <demo.rs> <dest relative to /repo, e.g. tests/x.rs or capi/tests/x.rs> [-p crate]
# -> runs the demo with and without the change in /repo (clean before and after)
set -u
patch="$1"; demo="$2"; dest="$3"; shift 3
name=$(basename "$dest" .rs)
cd /repo || exit 2
[ -z "$(git status --porcelain)" ] || { echo "repo not clean"; exit 2; }
cp "$demo" "/repo/$dest"
git apply "$patch" || { rm -f "/repo/$dest"; exit 2; }
cargo test --offline "$@" --test "$name" >/tmp/demo_with.txt 2>&1; rc_with=$?
git checkout -- . 
cargo test --offline "$@" --test "$name" >/tmp/demo_without.txt 2>&1; rc_without=$?
rm -f "/repo/$dest"
git checkout -- . ; git clean -fdq -e target
echo "demo with change: rc=$rc_with ($(grep -E '^test result' /tmp/demo_with.txt | head -1)); without: rc=$rc_without ($(grep -E '^test result' /tmp/demo_without.txt | head -1))"
[ "$rc_with" -ne 0 ] && [ "$rc_without" -eq 0 ]
